"""CPython-only oracles. Nothing in here asks pfst whether pfst is right."""

from __future__ import annotations

import ast
import io
import keyword
import re
import tokenize
from ast import AST

# ----------------------------------------------------------------------------------------------------------------------
# dumps


def T(a: AST) -> str:
    """Types, field values, contexts and all four position attributes."""

    return ast.dump(a, include_attributes=True)


def S(a: AST) -> str:
    """Structure only."""

    return ast.dump(a)


_CTX_RE = re.compile(r', ctx=(?:Load|Store|Del)\(\)|ctx=(?:Load|Store|Del)\(\)(?:, )?')


def S0(a: AST) -> str:
    """Structure with expression contexts erased."""

    return _CTX_RE.sub('', ast.dump(a))


def S_fblank(tree: AST) -> str:
    """Structure with the literal parts of f-strings blanked: in a self-documenting field `{expr = }` the expression text, whitespace included, is
    also the value of the preceding literal part, so an edit of the expression changes that Constant too."""

    saved = []

    try:
        for n in ast.walk(tree):
            if isinstance(n, ast.JoinedStr):
                for v in n.values:
                    if isinstance(v, ast.Constant):
                        saved.append((v, v.value))
                        v.value = ''

        return S(tree)

    finally:
        for v, val in saved:
            v.value = val


def first_diff(x: str, y: str, ctx: int = 60) -> str:
    n = min(len(x), len(y))
    i = next((i for i in range(n) if x[i] != y[i]), n)

    return f'@{i}: live=...{x[max(0, i - ctx): i + ctx]!r} ref=...{y[max(0, i - ctx): i + ctx]!r}'


# ----------------------------------------------------------------------------------------------------------------------
# reference parse of a whole root source, for any root kind


class NoRef(Exception):
    """No CPython reference is available for this root kind (counted, never a violation)."""


def _shift(node: AST, dl: int, dc0: int, first_line: int) -> AST:
    """Shift positions of all nodes by `dl` lines and, for nodes on `first_line` (1-based, wrapper coords), `dc0` byte
    columns."""

    nodes = node if isinstance(node, list) else [node]

    for n in (m for top in nodes if isinstance(top, ast.AST) for m in ast.walk(top)):
        if hasattr(n, 'lineno') and n.lineno is not None:
            if n.lineno == first_line:
                n.col_offset += dc0
            if n.end_lineno == first_line:
                n.end_col_offset += dc0

            n.lineno += dl
            n.end_lineno += dl

    return node


def _wrap_parse(prefix: str, src: str, suffix: str, path, mode: str = 'exec') -> AST:
    """Parse prefix+src+suffix, fetch node at `path` and shift positions back to fragment coordinates. `prefix` may
    contain newlines; the fragment starts right after it."""

    tree = ast.parse(prefix + src + suffix, mode=mode)
    node = tree

    for p in path:
        node = node[p] if isinstance(p, int) else getattr(node, p)

    nl = prefix.count('\n')
    last = prefix[prefix.rfind('\n') + 1:]

    return _shift(node, -nl, -len(last.encode()), nl + 1)


def balanced(src: str) -> bool:
    """Bracket balance by tokenize: depth never negative and ends at zero. A fragment such as `a) + (b` must never be
    "validated" by a wrapper."""

    depth = 0

    try:
        for tok in tokenize.generate_tokens(io.StringIO(src).readline):
            if tok.type == tokenize.OP:
                if tok.string in '([{':
                    depth += 1
                elif tok.string in ')]}':
                    depth -= 1

                    if depth < 0:
                        return False

    except (tokenize.TokenError, IndentationError, SyntaxError):
        pass  # e.g. EOF after a backslash continuation or inside an open bracket: the count so far decides

    return depth == 0


def _open_seq_extent(ref: AST, src: str) -> AST:
    """An unparenthesised Tuple / MatchSequence fragment takes the wrapper's parentheses as its own when embedded: give it back the
    extent of its own tokens (first to last significant token, a trailing comma included)."""

    if isinstance(ref, (ast.Tuple, ast.MatchSequence)) and ref.lineno < 1:
        # tokenised inside parentheses (no INDENT / DEDENT bookkeeping for continuation lines that step back), rows shifted back by one
        toks = [t for t in tokenize.generate_tokens(io.StringIO('(\n' + src + '\n)').readline)
                if t.type not in _SKIP_TOK and t.type != tokenize.COMMENT][1:-1]

        if toks:
            lines = src.split('\n')
            (sl, sc), (el, ec) = (toks[0].start[0] - 1, toks[0].start[1]), (toks[-1].end[0] - 1, toks[-1].end[1])
            ref.lineno, ref.col_offset = sl, c2b(lines[sl - 1], sc)
            ref.end_lineno, ref.end_col_offset = el, c2b(lines[el - 1], ec)

    return ref


def parse_ref(src: str, root_ast: AST) -> AST:
    """CPython parse of the whole `src` for the kind of `root_ast`. Raises SyntaxError (or ValueError etc.) if CPython
    rejects, NoRef if the kind has no reference embedding here."""

    cls = root_ast.__class__
    name = cls.__name__

    if cls is ast.Module:
        return ast.parse(src)

    if cls is ast.Expression:
        return ast.parse(src, mode='eval')

    if cls is ast.Interactive:
        return ast.parse(src, mode='single')

    if isinstance(root_ast, ast.stmt):
        m = ast.parse(src)

        if len(m.body) != 1:
            raise SyntaxError(f'expecting single statement, got {len(m.body)}')

        return m.body[0]

    if not balanced(src):
        raise SyntaxError('unbalanced fragment')

    if isinstance(root_ast, ast.expr):
        if cls is ast.Slice:
            return _wrap_parse('_[\n', src, '\n]', ('body', 0, 'value', 'slice'))

        if cls is ast.Starred:
            try:
                return _wrap_parse('[\n', src, '\n]', ('body', 0, 'value', 'elts', 0))
            except SyntaxError:
                return _wrap_parse('_(\n', src, '\n)', ('body', 0, 'value', 'args', 0))  # arglike `*not a`, `*a or b`

        if cls is ast.Tuple and any(isinstance(e, ast.Slice) for e in root_ast.elts):
            return _wrap_parse('_[\n', src, '\n]', ('body', 0, 'value', 'slice'))

        try:
            return _open_seq_extent(_wrap_parse('(\n', src, '\n)', ('body',), 'eval'), src)
        except SyntaxError:
            if cls is ast.Tuple:  # may contain arglike starred `*not a` valid only in subscript
                return _wrap_parse('_[\n', src, '\n]', ('body', 0, 'value', 'slice'))

            raise

    if cls is ast.ExceptHandler:
        return _wrap_parse('try: pass\n', src, '', ('body', 0, 'handlers', 0))

    if cls is ast.match_case:
        inside = set()  # 0-based lines which continue a multi-line string token: not indented, their leading whitespace is string content

        try:
            for tok in tokenize.generate_tokens(io.StringIO(src).readline):
                if tok.end[0] > tok.start[0] and tok.type not in (tokenize.NEWLINE, tokenize.NL, tokenize.INDENT, tokenize.DEDENT, tokenize.ENDMARKER, tokenize.OP):
                    inside.update(range(tok.start[0], tok.end[0]))
        except (tokenize.TokenError, IndentationError, SyntaxError):
            inside = set()

        m = ast.parse('match _:\n' + '\n'.join(l if i in inside else ' ' + l for i, l in enumerate(src.split('\n'))))
        node = m.body[0].cases[0]

        if len(m.body[0].cases) != 1:
            raise SyntaxError('expecting single case')

        for n in ast.walk(node):
            if hasattr(n, 'lineno'):
                n.lineno -= 1
                n.end_lineno -= 1

                if n.lineno - 1 not in inside:
                    n.col_offset -= 1

                if n.end_lineno - 1 not in inside:
                    n.end_col_offset -= 1

        return node

    if isinstance(root_ast, ast.pattern):
        if cls is ast.MatchStar:
            return _wrap_parse('match _:\n case [\n', src, '\n]: pass', ('body', 0, 'cases', 0, 'pattern', 'patterns', 0))

        return _open_seq_extent(_wrap_parse('match _:\n case (\n', src, '\n): pass', ('body', 0, 'cases', 0, 'pattern')), src)

    if cls is ast.arguments:
        try:
            return _wrap_parse('def _(\n', src, '\n): pass', ('body', 0, 'args'))
        except SyntaxError:
            return _wrap_parse('(lambda \\\n', src, ' \\\n: _)', ('body', 0, 'value', 'args'))

    if cls is ast.arg:
        try:
            return _wrap_parse('def _(\n', src, '\n): pass', ('body', 0, 'args', 'args', 0))
        except SyntaxError:
            return _wrap_parse('def _(*\n', src, '\n): pass', ('body', 0, 'args', 'vararg'))  # vararg with starred annotation

    if cls is ast.keyword:
        return _wrap_parse('_(\n', src, '\n)', ('body', 0, 'value', 'keywords', 0))

    if cls is ast.alias:
        for prefix, suffix in (('from _ import (\n', '\n)'), ('import \\\n', ''), ('from _ import \\\n', '')):
            try:
                return _wrap_parse(prefix, src, suffix, ('body', 0, 'names', 0))
            except SyntaxError as exc:
                last = exc

        raise last

    if cls is ast.withitem:
        return _wrap_parse('with (\n', src, '\n): pass', ('body', 0, 'items', 0))

    if cls is ast.comprehension:
        return _wrap_parse('[_ \n', src, '\n]', ('body', 0, 'value', 'generators', 0))

    if isinstance(root_ast, ast.type_param):
        return _wrap_parse('def _[\n', src, '\n](): pass', ('body', 0, 'type_params', 0))

    raise NoRef(name)


# ----------------------------------------------------------------------------------------------------------------------
# tokens

_SKIP_TOK = {tokenize.NL, tokenize.NEWLINE, tokenize.INDENT, tokenize.DEDENT, tokenize.ENDMARKER}


def K(src: str, comments: bool = True) -> list[tuple[int, str]]:
    """Significant token stream `(type, string)`, COMMENT kept. Raises on tokenize failure."""

    out = []

    for tok in tokenize.generate_tokens(io.StringIO(src).readline):
        if tok.type in _SKIP_TOK:
            continue
        if tok.type == tokenize.COMMENT and not comments:
            continue

        out.append((tok.type, tok.string))

    return out


def K_pos(src: str):
    """Significant tokens with positions `(type, string, (sl, sc), (el, ec))`, rows 0-based, cols in chars."""

    out = []

    for tok in tokenize.generate_tokens(io.StringIO(src).readline):
        if tok.type in _SKIP_TOK:
            continue

        out.append((tok.type, tok.string, (tok.start[0] - 1, tok.start[1]), (tok.end[0] - 1, tok.end[1])))

    return out


def content_tokens(src: str) -> list[str]:
    """NAME (non-keyword), NUMBER, STRING and f-string part tokens plus COMMENTs, in order."""

    out = []

    for typ, s in K(src):
        if typ == tokenize.NAME:
            if not keyword.iskeyword(s):
                out.append(s)
        elif typ in (tokenize.NUMBER, tokenize.STRING, tokenize.COMMENT, tokenize.FSTRING_START, tokenize.FSTRING_MIDDLE,
                     tokenize.FSTRING_END):
            out.append(s)

    return out


def comments_of(src: str) -> list[str]:
    return [s for typ, s in K(src) if typ == tokenize.COMMENT]


def b2c(line: str, b: int) -> int:
    """Byte offset to char offset on a line (reference implementation)."""

    return len(line.encode()[:b].decode(errors='ignore'))


def c2b(line: str, c: int) -> int:
    return len(line[:c].encode())
