"""Property-based verification machinery for pfst (tom-pytel/pfst). See /verif/DESIGN.md."""

import os
import sys

# The checks must see /repo's *current working tree*. pfst is a pure-Python package so "rebuilding" is importing from
# source. PFSTVERIF_SRC lets sensitivity runs point at a scratch (mutated) copy instead; nothing registered uses it.

REPO = os.environ.get('PFSTVERIF_REPO', '/repo')
SRC = os.environ.get('PFSTVERIF_SRC') or os.path.join(REPO, 'src')

if SRC not in sys.path:
    sys.path.insert(0, SRC)

VERIF = os.path.dirname(os.path.dirname(os.path.abspath(__file__)))
