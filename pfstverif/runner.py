"""Runner: sharding, seeds, wall budget, known findings, shrinking, replay files, evidence, exit codes.

Exit codes: 0 held on everything explored; 1 violation (with `VIOLATION property=<id> replay=<path>` lines);
2 harness error (never reported as a violation).
"""

from __future__ import annotations

import argparse
import hashlib
import importlib
import json
import multiprocessing
import os
import re
import signal
import sys
import time
import traceback
from collections import Counter

from . import VERIF

NSHARDS_DEFAULT = int(os.environ.get('PFSTVERIF_SHARDS', '16'))
MAX_SAMPLES = 8
MAX_BUCKETS = 12


class Violation(Exception):
    """Oracle failure. `clause` names the oracle clause, `sig` is a stable signature of the failing site used for
    bucketing and for matching known findings, `msg` is for humans."""

    def __init__(self, clause: str, msg: str, sig: str = ''):
        super().__init__(f'{clause}: {msg}')

        self.clause = clause
        self.msg = msg
        self.sig = sig or clause


class CaseTimeout(BaseException):
    pass


class Skip(Exception):
    """Case discarded by a stated precondition; `reason` is counted."""

    def __init__(self, reason: str):
        super().__init__(reason)

        self.reason = reason


def case_hash(obj) -> str:
    return hashlib.sha1(json.dumps(obj, sort_keys=True, default=repr).encode()).hexdigest()[:16]


def fst_site(exc: BaseException) -> str:
    """Innermost frame inside the fst package, `file:function`, for bucketing raises."""

    site = '?'
    tb = exc.__traceback__

    while tb:
        fn = tb.tb_frame.f_code.co_filename

        if f'{os.sep}fst{os.sep}' in fn:
            site = f'{os.path.basename(fn)}:{tb.tb_frame.f_code.co_name}'

        tb = tb.tb_next

    return site


class Ctx:
    """Per-shard collection context handed to `execute()`."""

    def __init__(self, tier: str, seed: int, shard: int, nshards: int, deadline: float):
        self.tier = tier
        self.seed = seed
        self.shard = shard
        self.nshards = nshards
        self.deadline = deadline
        self.counters = Counter()
        self.nontrivial = set()
        self.samples = []
        self.failures = {}  # bucket -> dict(case, clause, msg, sig, size)
        self.harness_errors = []
        self.timeouts = []
        self.evaluations = 0

    def count(self, key: str, n: int = 1):
        self.counters[key] += n

    def mark_nontrivial(self, key_obj, sample=None):
        h = case_hash(key_obj)

        if h not in self.nontrivial:
            self.nontrivial.add(h)

            if sample is not None and len(self.samples) < MAX_SAMPLES and (len(self.nontrivial) % 7 == 1 or len(self.samples) < 2):
                self.samples.append(sample)

    def out_of_time(self) -> bool:
        return time.time() > self.deadline

    def result(self) -> dict:
        return {
            'evaluations': self.evaluations,
            'counters': dict(self.counters),
            'nontrivial': sorted(self.nontrivial),
            'samples': self.samples,
            'failures': self.failures,
            'harness_errors': self.harness_errors,
            'timeouts': self.timeouts,
        }


def _alarm_handler(signum, frame):
    raise CaseTimeout()


def run_case(mod, case, ctx: Ctx, case_timeout: float) -> None:
    """Execute one concrete case, recording outcome in ctx. Never raises (except KeyboardInterrupt)."""

    if ctx.out_of_time():
        ctx.count('skipped_wall_budget')

        return

    ctx.evaluations += 1
    old = signal.signal(signal.SIGALRM, _alarm_handler)
    signal.setitimer(signal.ITIMER_REAL, case_timeout)

    try:
        try:
            mod.execute(case, ctx)
        finally:
            signal.setitimer(signal.ITIMER_REAL, 0)
            signal.signal(signal.SIGALRM, old)

    except Violation as v:
        bucket = f'{v.clause}|{v.sig}'
        size = len(json.dumps(case, default=repr))
        prev = ctx.failures.get(bucket)
        ctx.count('violations_seen')

        if prev is None and len(ctx.failures) >= MAX_BUCKETS:
            return

        if prev is None or size < prev['size']:
            ctx.failures[bucket] = {'case': case, 'clause': v.clause, 'msg': v.msg[:2000], 'sig': v.sig, 'size': size}

    except Skip as s:
        ctx.count(f'discard:{s.reason}')

    except CaseTimeout:
        ctx.count('case_timeouts')

        if len(ctx.timeouts) < 2:
            ctx.timeouts.append(json.loads(json.dumps(case, default=repr)))

        handler = getattr(mod, 'on_timeout', None)

        if handler:
            try:
                handler(case, ctx)
            except Violation as v:
                bucket = f'{v.clause}|{v.sig}'
                ctx.failures.setdefault(bucket, {'case': case, 'clause': v.clause, 'msg': v.msg, 'sig': v.sig,
                                                 'size': len(json.dumps(case, default=repr))})

    except RecursionError:
        ctx.count('recursion_errors')

    except MemoryError:
        ctx.count('memory_errors')

    except Exception:
        if len(ctx.harness_errors) < 5:
            ctx.harness_errors.append({'case': case, 'traceback': traceback.format_exc()[-4000:]})


def _shard_main(args) -> dict:
    mod_name, tier, seed, shard, nshards, wall = args
    mod = importlib.import_module(mod_name)
    params = mod.params(tier)
    ctx = Ctx(tier, seed, shard, nshards, time.time() + wall)
    case_timeout = params.get('case_timeout', 30)
    sys.setrecursionlimit(max(sys.getrecursionlimit(), 3000))

    try:
        enum = getattr(mod, 'enumerate_cases', None)
        has_drawn = getattr(mod, 'strategy', None) is not None and params.get('examples', 0) > 0
        enum_end = time.time() + wall * (0.65 if has_drawn and tier == 'thorough' else 1.0)  # the enumerated grid may not starve the drawn cases of the shared wall budget

        if enum is not None:
            for case in enum(tier, shard, nshards, seed):
                run_case(mod, case, ctx, case_timeout)

                if ctx.out_of_time() or time.time() > enum_end:
                    ctx.count('enumeration_cut_by_wall_budget')

                    break

        strat = getattr(mod, 'strategy', None)

        if strat is not None and params.get('examples', 0) > 0:
            import hypothesis
            from hypothesis import HealthCheck, Phase, given, settings

            @hypothesis.seed(seed * 100003 + shard)
            @settings(max_examples=params['examples'], database=None, deadline=None, derandomize=False,
                      report_multiple_bugs=False, suppress_health_check=list(HealthCheck), phases=[Phase.generate])
            @given(strat(tier))
            def test(case):
                run_case(mod, case, ctx, case_timeout)

            test()

    except Exception:
        ctx.harness_errors.append({'case': None, 'traceback': traceback.format_exc()[-4000:]})

    fin = getattr(mod, 'shard_finish', None)

    if fin:
        fin(ctx)

    return ctx.result()


# ----------------------------------------------------------------------------------------------------------------------
# shrinking (ddmin over the plain-data case; bypasses Hypothesis so it is bounded and deterministic)


def generic_shrinks(case):
    if not isinstance(case, dict):
        return

    for k, v in case.items():
        if isinstance(v, list) and len(v) > 0 and k in ('steps', 'muts', 'script', 'schedule', 'threads', 'pats', 'tgt'):
            n = len(v)
            chunk = n // 2

            while chunk >= 1:
                for i in range(0, n, chunk):
                    yield {**case, k: v[:i] + v[i + chunk:]}

                chunk //= 2

    for k, v in case.items():
        if isinstance(v, str) and k in ('src',):
            lines = v.split('\n')
            n = len(lines)
            chunk = n // 2

            while chunk >= 1:
                for i in range(0, n, chunk):
                    yield {**case, k: '\n'.join(lines[:i] + lines[i + chunk:])}

                chunk //= 2


def _fails_same(mod, case, bucket: str, case_timeout: float) -> bool:
    ctx = Ctx('shrink', 0, 0, 1, time.time() + 3600)
    run_case(mod, case, ctx, case_timeout)

    return bucket in ctx.failures


def shrink(mod, fail: dict, bucket: str, budget_s: float, case_timeout: float) -> dict:
    case = fail['case']
    shr = getattr(mod, 'shrinks', None) or generic_shrinks
    end = time.time() + budget_s
    progress = True

    while progress and time.time() < end:
        progress = False

        for cand in shr(case):
            if time.time() > end:
                break

            if not getattr(mod, 'SHRINK_TRUSTED', False) and len(json.dumps(cand, default=repr)) >= len(json.dumps(case, default=repr)):
                continue

            try:
                if _fails_same(mod, cand, bucket, case_timeout):
                    case = cand
                    progress = True

                    break
            except Exception:
                continue

    # get message for the shrunk case
    ctx = Ctx('shrink', 0, 0, 1, time.time() + 3600)
    run_case(mod, case, ctx, case_timeout)
    out = ctx.failures.get(bucket, fail)

    return {**out, 'case': case}


# ----------------------------------------------------------------------------------------------------------------------
# known findings


def load_known(prop: str) -> list[dict]:
    path = os.path.join(VERIF, 'known_findings.json')

    if not os.path.exists(path):
        return []

    with open(path) as f:
        data = json.load(f)

    return [e for e in data.get('findings', []) if e.get('property') == prop]


def match_known(known: list[dict], fail: dict) -> dict | None:
    """A failure is covered by a `known` (not `fixed`) entry only if the entry's `match` regex matches the failure's
    bucket signature AND, when given, `match_msg` matches the message. Entries without `match` cover only their own
    concrete case (replayed at start)."""

    bucket = f"{fail['clause']}|{fail['sig']}"

    for e in known:
        if e.get('status') != 'known' or not e.get('match'):
            continue

        if re.search(e['match'], bucket) and (not e.get('match_msg') or re.search(e['match_msg'], fail['msg'])):
            return e

    return None


# ----------------------------------------------------------------------------------------------------------------------


def write_replay(prop: str, fail: dict) -> str:
    d = os.path.join(VERIF, 'replays', prop)
    os.makedirs(d, exist_ok=True)
    path = os.path.join(d, case_hash(fail['case']) + '.json')

    with open(path, 'w') as f:
        json.dump({'property': prop, 'clause': fail['clause'], 'sig': fail['sig'], 'msg': fail['msg'],
                   'case': fail['case']}, f, indent=1, default=repr)

    return os.path.relpath(path, VERIF)


def replay(mod, path: str) -> int:
    with open(path) as f:
        data = json.load(f)

    case = data['case'] if 'case' in data and 'property' in data else data
    ctx = Ctx('replay', 0, 0, 1, time.time() + 3600)
    run_case(mod, case, ctx, mod.params('quick').get('case_timeout', 30))

    if ctx.harness_errors:
        print(ctx.harness_errors[0]['traceback'], file=sys.stderr)

        return 2

    if ctx.failures:
        for bucket, fail in ctx.failures.items():
            print(f'{bucket}: {fail["msg"]}')
            print(f'VIOLATION property={mod.ID} replay={path}')

        return 1

    print(f'replay of {path}: property held ({dict(ctx.counters)})')

    return 0


def main(argv=None) -> int:
    ap = argparse.ArgumentParser(prog='check')
    ap.add_argument('prop')
    ap.add_argument('--tier', default=os.environ.get('VERIF_TIER') or 'quick', choices=['quick', 'thorough'])
    ap.add_argument('--replay')
    ap.add_argument('--seed', type=int, default=None)
    ap.add_argument('--shards', type=int, default=NSHARDS_DEFAULT)
    ap.add_argument('--wall', type=float, default=None)
    args = ap.parse_args(argv)

    if os.environ.get('PYTHONHASHSEED') != '0':
        os.environ['PYTHONHASHSEED'] = '0'
        os.chdir(VERIF)
        os.execv(sys.executable, [sys.executable, '-m', 'pfstverif'] + (argv if argv is not None else sys.argv[1:]))

    prop = args.prop.upper()
    mod_name = f'pfstverif.checks.{prop.lower()}'
    t0 = time.time()

    try:
        mod = importlib.import_module(mod_name)
    except Exception:
        traceback.print_exc()

        return 2

    if args.replay:
        return replay(mod, args.replay)

    seed = args.seed if args.seed is not None else int(os.environ.get('VERIF_SEED') or '1')
    params = mod.params(args.tier)
    wall = args.wall or params['wall']
    nshards = args.shards
    known = load_known(prop)
    rc = 0
    lines_out = []

    # replay known / fixed findings first

    known_still = 0

    for e in known:
        if 'case' not in e:
            if e.get('status') == 'known':
                lines_out.append(f"KNOWN-FINDING: property={prop} {e['what']}")
            continue

        ctx = Ctx('replay', 0, 0, 1, time.time() + 600)
        run_case(mod, e['case'], ctx, params.get('case_timeout', 30))

        if ctx.harness_errors:
            print(ctx.harness_errors[0]['traceback'], file=sys.stderr)
            print(f'harness error replaying known finding {e.get("id")}', file=sys.stderr)

            return 2

        if e.get('status') == 'known':
            lines_out.append(f"KNOWN-FINDING: property={prop} {e['what']}" + ('' if ctx.failures else ' (no longer reproduces)'))
            known_still += bool(ctx.failures)

        elif e.get('status') == 'fixed' and ctx.failures:
            fail = next(iter(ctx.failures.values()))
            path = write_replay(prop, fail)
            lines_out.append(f'fixed finding {e.get("id")} has returned: {fail["msg"][:300]}')
            lines_out.append(f'VIOLATION property={prop} replay={path}')
            rc = 1

    # run shards

    if hasattr(mod, 'prepare'):  # work to be done once, in the parent, before the shards are forked (inherited by them)
        mod.prepare(args.tier)

    jobs = [(mod_name, args.tier, seed, i, nshards, wall) for i in range(nshards)]

    if nshards == 1:
        results = [_shard_main(jobs[0])]
    else:
        mp = multiprocessing.get_context('fork')

        with mp.Pool(nshards) as pool:
            results = pool.map(_shard_main, jobs, chunksize=1)

    evaluations = sum(r['evaluations'] for r in results)
    counters = Counter()
    nontrivial = set()
    samples = []
    failures = {}
    harness_errors = []

    timeout_cases = []

    for r in results:
        timeout_cases.extend(r.get('timeouts', []))
        counters.update(r['counters'])
        nontrivial.update(r['nontrivial'])
        harness_errors.extend(r['harness_errors'])

        for s in r['samples']:
            if len(samples) < MAX_SAMPLES:
                samples.append(s)

        for b, fl in r['failures'].items():
            if b not in failures or fl['size'] < failures[b]['size']:
                failures[b] = fl

    n_viol = 0
    n_known_hits = 0
    shrink_budget = params.get('shrink_s', 40 if args.tier == 'quick' else 150)

    for bucket, fail in sorted(failures.items()):
        e = match_known(known, fail)

        if e is not None:
            n_known_hits += 1
            counters[f'known_finding_hit:{e.get("id")}'] += 1

            continue

        if n_viol < 6 and not os.environ.get('PFSTVERIF_NOSHRINK'):
            try:
                fail = shrink(mod, fail, bucket, shrink_budget, params.get('case_timeout', 30))
            except Exception:
                traceback.print_exc()

        path = write_replay(prop, fail)
        lines_out.append(f'[{bucket}] {fail["msg"][:600]}')
        lines_out.append(f'VIOLATION property={prop} replay={path}')
        n_viol += 1
        rc = 1

    if harness_errors:
        for he in harness_errors[:3]:
            print(he['traceback'], file=sys.stderr)
            print('case:', json.dumps(he['case'], default=repr)[:1500], file=sys.stderr)

        print(f'HARNESS ERROR in {prop}: {len(harness_errors)} (not a violation)', file=sys.stderr)

        if rc == 0:
            rc = 2

    # floors on interesting classes: a degenerate generator is a harness problem, not a pass

    floors = getattr(mod, 'floors', lambda tier: {})(args.tier)
    cut = counters.get('skipped_wall_budget', 0) or counters.get('enumeration_cut_by_wall_budget', 0)

    for key, lo in floors.items():
        have = len(nontrivial) if key == 'distinct_nontrivial' else evaluations if key == 'evaluations' else counters.get(key, 0)

        if have < lo and not failures:
            print(f'HARNESS: floor not reached for {key}: {have} < {lo}' + (' (wall budget cut)' if cut else ''), file=sys.stderr)

            if rc == 0:
                rc = 2

    wall_s = time.time() - t0
    coverage = {
        'evaluations': evaluations,
        'distinct_nontrivial': len(nontrivial),
        'rule': mod.RULE,
        'samples': samples[:MAX_SAMPLES],
        'exhaustive': bool(getattr(mod, 'exhaustive', lambda tier: False)(args.tier)) and not cut,
        'shards': nshards,
        'counters': dict(sorted(counters.items())),
        'timeout_cases(inconclusive, first few)': timeout_cases[:3],
        'known_findings_reproduced': known_still,
        'failures_matching_known_findings': n_known_hits,
    }

    extra = getattr(mod, 'coverage_extra', None)

    if extra:
        coverage.update(extra(args.tier))

    evidence = {
        'property_id': prop,
        'tier': args.tier,
        'seed': seed,
        'level': mod.LEVEL,
        'coverage': coverage,
        'assumptions': list(mod.ASSUMPTIONS),
        'wall_s': round(wall_s, 2),
        'violations': n_viol,
    }

    os.makedirs(os.path.join(VERIF, 'evidence'), exist_ok=True)

    with open(os.path.join(VERIF, 'evidence', f'{prop}.json'), 'w') as f:
        json.dump(evidence, f, indent=1, default=repr)

    for ln in lines_out:
        print(ln)

    print(f'{prop} {args.tier} seed={seed}: evaluations={evaluations} nontrivial={len(nontrivial)} violations={n_viol} '
          f'known_hits={n_known_hits} wall={wall_s:.1f}s rc={rc}')

    return rc
