"""C16 - scope analysis agrees with Python's own symbol table."""

from __future__ import annotations

import ast
import symtable

from hypothesis import strategies as st

from .. import gen
from ..editmachine import FST
from ..runner import Skip, Violation

ID = 'C16'
LEVEL = 'exploration'
TECHNIQUE = 'differential testing over all scopes of real / generated programs: reference scope analyser written from the language reference, itself cross-checked against CPython symtable in the same run'
RULE = ('Programs: seeded slice of real files (all scopes of each), synthetic scope-corner templates (nested functions / classes / lambdas / '
        'comprehensions, comprehension first iterables that are calls / attributes / comprehensions, a 180-program grid of every comprehension kind nested in every position of every comprehension kind in every enclosing scope kind, walrus inside nested comprehensions, '
        'global / nonlocal, imports, augmented assignment, except-as, with-as, for targets, match captures, decorators / defaults / '
        'annotations / bases) and Hypothesis-drawn windows. For every scope node S: (R1) a reference analyser over plain ast computes the '
        'node set of the scope and the name sets load / store / del / global / nonlocal / local / free with pfst\'s documented definitions of '
        'local and free; (R2) R1 is validated against symtable.symtable of the same source (names of R1 are a subset of the symtable scope, the '
        'surplus is explained by 3.12 comprehension inlining, binding / reference / global / nonlocal / parameter / import flags agree) - an R1/R2 '
        'disagreement is counted and the scope skipped, never reported as a violation. Oracle: the set of name-bearing nodes yielded by '
        'walk(scope=True) == R1 node set (structural container nodes are compared too, differences only tolerated for '
        'arguments / comprehension / operator / context nodes); scope_symbols(full=True) name sets == R1 name sets per category and the node '
        'lists are the R1 nodes in source order. Non-trivial = scope containing a nested scope, a comprehension, a global / nonlocal '
        'declaration or a capture name; distinct by (source hash, scope position).')
ASSUMPTIONS = [
    'type parameter names (3.12 annotation scopes) are excluded from the comparison: pfst documents them as belonging to the def, CPython '
    'puts them in a separate annotation scope',
    'class-body / function-body semantics of `local` and `free` follow pfst\'s documented definitions (stores not declared global/nonlocal; '
    'loads never stored, deleted or declared), not CPython\'s cell/free analysis',
]

SCOPES = (ast.Module, ast.FunctionDef, ast.AsyncFunctionDef, ast.Lambda, ast.ClassDef, ast.ListComp, ast.SetComp, ast.DictComp, ast.GeneratorExp)
COMPS = (ast.ListComp, ast.SetComp, ast.DictComp, ast.GeneratorExp)
DEFS = (ast.FunctionDef, ast.AsyncFunctionDef, ast.ClassDef)

SYN = (
    'def f():\n  x = [c for c in range(n)]\n  return x',
    'def f(a, b=d, *c, e: ann = dd, **g) -> r:\n  global G\n  nonlocal_ = 1\n  def inner(p=a):\n    nonlocal b\n    b = p\n  return inner',
    'class C(B, m=M):\n  x = 1\n  def m(self): return x\n  y = [x for _ in z]',
    'try:\n  pass\nexcept E as e:\n  print(e)\nexcept (A, B) as e2:\n  pass',
    'match q:\n  case [a, *b]: pass\n  case {"k": v, **rest}: pass\n  case C(x=y) as whole: pass\n  case 1 | 2: pass',
    'def f():\n  y = [(z := i) for i in it if (w := i)]\n  return [[(q := j) for j in i] for i in k]',
    'x = [i for i in f(a) if i for j in g(i) if j]\ny = {k: v for k, v in d.items()}\nz = (a for a in (b for b in c))',
    'import a.b.c, d as e\nfrom m import n, o as p\nfrom q import *\ndel r, s.t\nu += v\nw: int = 1\nwith cm as (t1, t2): pass\nfor (i, j) in k: pass',
    'l = lambda a, b=c, *d, **e: a + g\n@dec(arg)\ndef h(x: T = dflt) -> R: return x + free1',
    'def outer():\n  v = 1\n  class K:\n    v = v\n    def m(self):\n      return v\n  return K',
    'async def f():\n  async with a as b:\n    async for c in d:\n      await c\n  return [x async for x in y]',
    'def g():\n  global a, b\n  a = 1\n  del b\n  print(a, c)\n  def h():\n    nonlocal_ = c',
    'x = [y for y in [z for z in w]]\nq = [lambda: p for p in r]\n',
    'def f(x):\n  return [x for x in x]',
    'a = (b := c)\n[d := e for f in g]',
)


def comp_nest_programs():
    """G-nest: every comprehension kind x every comprehension kind nested in every position of the outer one (first iterable - directly,
    parenthesised, inside a call - element, condition, later iterable, target subscript), in every kind of enclosing scope. The first
    iterable of the first generator is the only part that belongs to the enclosing scope; a nested comprehension there is itself one
    scope up, recursively."""

    def comp(kind, elt, gens):
        return {'L': f'[{elt} {gens}]', 'S': f'{{{elt} {gens}}}', 'D': f'{{{elt}: w2 {gens}}}', 'G': f'({elt} {gens})'}[kind]

    exprs = []

    for ok in 'LSDG':
        for ik in 'LSDG':
            inner = comp(ik, 'k', 'for k, v in z if c1')
            exprs.append(comp(ok, 'x', f'for x in {inner}'))
            exprs.append(comp(ok, 'x', f'for x in ({inner})'))
            exprs.append(comp(ok, 'x', f'for x in f({inner}, w)'))
            exprs.append(comp(ok, 'x', f'for x in {inner}.items()'))
            exprs.append(comp(ok, inner, 'for x in y'))
            exprs.append(comp(ok, 'x', f'for x in y if {inner}'))
            exprs.append(comp(ok, 'x', f'for x in y for u in {inner}'))
            exprs.append(comp(ok, 'x', f'for t[{inner}] in y'))
            exprs.append(comp(ok, 'x', 'for x in ' + comp(ik, 'k', 'for k in ' + comp(ok, 'j', 'for j in z2'))))

    out = []

    for i in range(0, len(exprs), 4):
        a, b, c, d = (exprs + exprs[:3])[i : i + 4]
        out.append(f'def f(z, y=0):\n  return {a}')
        out.append(f'r = {b}')
        out.append(f'class C:\n  y = 1\n  r = {c}\n  def m(self, z): return {a}')
        out.append(f'l = lambda z: {d}')
        out.append(f'def g(z):\n  def h(): return {b}\n  return [h for _ in {c}]')

    good = []

    for src in out:
        try:
            ast.parse(src)
            good.append(src)
        except SyntaxError:
            pass

    return tuple(good)


def params(tier):
    if tier == 'quick':
        return {'examples': 200, 'wall': 80, 'case_timeout': 60, 'files': 120}

    return {'examples': 6000, 'wall': 600, 'case_timeout': 120, 'files': 400}


def floors(tier):
    return {'distinct_nontrivial': 1500 if tier == 'quick' else 30000}


def enumerate_cases(tier, shard, nshards, seed):
    files = gen.real_files()

    for k in range(params(tier)['files']):
        i = (seed * 7919 + shard * 104729 + k * 15485863) % len(files)

        yield {'file': files[i]}

    for j, src in enumerate(SYN + gen.SYN_PROGRAMS + comp_nest_programs()):
        if j % nshards == shard:
            yield {'src': src}


def strategy(tier):
    @st.composite
    def strat(draw):
        return {'src': draw(gen.program(80, layout=False))}

    return strat()


# ----------------------------------------------------------------------------------------------------------------------
# R1 reference analyser


def visible_parts(n):
    """Children of a nested scope node `n` that belong to the ENCLOSING scope."""

    out = []

    if isinstance(n, (ast.FunctionDef, ast.AsyncFunctionDef)):
        out += n.decorator_list
        a = n.args
        out += a.defaults + [d for d in a.kw_defaults if d is not None]
        out += [x.annotation for x in a.posonlyargs + a.args + a.kwonlyargs + ([a.vararg] if a.vararg else []) + ([a.kwarg] if a.kwarg else []) if x.annotation]

        if n.returns:
            out.append(n.returns)
    elif isinstance(n, ast.Lambda):
        a = n.args
        out += a.defaults + [d for d in a.kw_defaults if d is not None]
    elif isinstance(n, ast.ClassDef):
        out += n.decorator_list + n.bases + [k for k in n.keywords]
    elif isinstance(n, COMPS):
        out.append(n.generators[0].iter)

    return out


def own_parts(n):
    """Children of scope node `n` that belong to ITS OWN scope."""

    if isinstance(n, ast.Module):
        return list(n.body)
    if isinstance(n, (ast.FunctionDef, ast.AsyncFunctionDef)):
        a = n.args

        return [*a.posonlyargs, *a.args, *([a.vararg] if a.vararg else []), *a.kwonlyargs, *([a.kwarg] if a.kwarg else []), *n.body]
    if isinstance(n, ast.Lambda):
        a = n.args

        return [*a.posonlyargs, *a.args, *([a.vararg] if a.vararg else []), *a.kwonlyargs, *([a.kwarg] if a.kwarg else []), n.body]
    if isinstance(n, ast.ClassDef):
        return list(n.body)
    if isinstance(n, COMPS):
        out = [n.key, n.value] if isinstance(n, ast.DictComp) else [n.elt]

        for i, g in enumerate(n.generators):
            out.append(g.target)

            if i:
                out.append(g.iter)

            out += g.ifs

        return out

    return []


def scope_nodes(S):
    """Name-relevant nodes that belong to scope S per Python's rules, and the walrus targets found inside nested comprehensions
    (they belong to S when S is not itself a comprehension)."""

    nodes = []
    walrus = []  # NamedExpr.target Names inside comprehensions nested in S (any depth through comprehensions)

    def visit(n, in_comp_chain):
        """n belongs to S (or, when in_comp_chain, to a comprehension nested in S from which only walrus targets count)."""

        if isinstance(n, SCOPES) and n is not S:
            if not in_comp_chain:
                nodes.append(n)

                for v in visible_parts(n):
                    visit(v, False)

            if isinstance(n, COMPS):
                for p in own_parts(n):
                    visit(p, True)
            # arg annotations of nested defs were handled as visible parts; arg nodes themselves belong to the nested scope

            return

        if in_comp_chain:
            if isinstance(n, ast.NamedExpr) and isinstance(n.target, ast.Name):
                walrus.append(n.target)
                visit(n.value, True)

                return
        else:
            nodes.append(n)

        if isinstance(n, ast.arg):
            return  # annotation belongs to the enclosing scope (visible part of the def), handled there

        for c in ast.iter_child_nodes(n):
            if isinstance(n, (ast.FunctionDef, ast.AsyncFunctionDef, ast.ClassDef)) and False:
                pass

            visit(c, in_comp_chain)

    if isinstance(S, ast.arg):
        return [], []

    for p in own_parts(S):
        visit(p, False)

    return nodes, walrus


def r1_symbols(S):
    nodes, walrus = scope_nodes(S)
    load, store, dele, glob, nonl = {}, {}, {}, {}, {}
    is_comp = isinstance(S, COMPS)

    def add(d, name, node):
        d.setdefault(name, []).append(node)

    for n in nodes:
        if isinstance(n, ast.Name):
            if isinstance(n.ctx, ast.Load):
                add(load, n.id, n)
            elif isinstance(n.ctx, ast.Del):
                add(dele, n.id, n)
            else:
                add(store, n.id, n)
        elif isinstance(n, ast.arg):
            add(store, n.arg, n)
        elif isinstance(n, DEFS):
            add(store, n.name, n)
        elif isinstance(n, ast.AugAssign) and isinstance(n.target, ast.Name):
            add(load, n.target.id, n.target)
        elif isinstance(n, ast.Import):
            for al in n.names:
                add(store, al.asname or al.name.split('.', 1)[0], al)
        elif isinstance(n, ast.ImportFrom):
            for al in n.names:
                if al.name != '*':
                    add(store, al.asname or al.name, al)
        elif isinstance(n, ast.Global):
            for nm in n.names:
                add(glob, nm, n)
        elif isinstance(n, ast.Nonlocal):
            for nm in n.names:
                add(nonl, nm, n)
        elif isinstance(n, ast.ExceptHandler) and n.name:
            add(store, n.name, n)
        elif isinstance(n, (ast.MatchAs, ast.MatchStar)) and n.name:
            add(store, n.name, n)
        elif isinstance(n, ast.MatchMapping) and n.rest:
            add(store, n.rest, n)

    walrus_names = set()

    if not is_comp:
        for t in walrus:  # walrus targets inside nested comprehensions bind in this scope
            add(store, t.id, t)
    else:
        walrus_names = {t.id for t in walrus} | {n.target.id for n in nodes if isinstance(n, ast.NamedExpr) and isinstance(n.target, ast.Name)}

    def key(x):
        return (getattr(x, 'lineno', 0), getattr(x, 'col_offset', 0))

    for d in (load, store, dele):
        for k in d:
            d[k].sort(key=key)

    return {'load': load, 'store': store, 'del': dele, 'global': glob, 'nonlocal': nonl, 'walrus_names': walrus_names, 'nodes': nodes, 'walrus': walrus}


# ----------------------------------------------------------------------------------------------------------------------
# R2: symtable cross-check of R1


def symtable_index(src):
    """{(type, name, lineno): [symtable, ...]} for function / class / module scopes."""

    top = symtable.symtable(src, '<c16>', 'exec')
    out = {}

    def rec(t):
        out.setdefault((t.get_type(), t.get_name(), t.get_lineno()), []).append(t)

        for c in t.get_children():
            rec(c)

    rec(top)

    return out


def check_r1_vs_symtable(S, r1, stabs):
    """-> None if consistent, else a reason string."""

    if isinstance(S, ast.Module):
        key = ('module', 'top', 0)
    elif isinstance(S, (ast.FunctionDef, ast.AsyncFunctionDef)):
        key = ('function', S.name, S.lineno)
    elif isinstance(S, ast.ClassDef):
        key = ('class', S.name, S.lineno)
    elif isinstance(S, ast.Lambda):
        key = ('function', 'lambda', S.lineno)
    elif isinstance(S, ast.GeneratorExp):
        key = ('function', 'genexpr', S.lineno)
    else:
        return None  # inlined comprehension: no table of its own in 3.12

    tabs = stabs.get(key)

    if not tabs or len(tabs) != 1:
        return None  # ambiguous (several scopes of the same name on one line): not used for validation

    t = tabs[0]
    names = {s.get_name(): s for s in t.get_symbols()}
    mine = set(r1['load']) | set(r1['store']) | set(r1['del']) | set(r1['global']) | set(r1['nonlocal'])
    mangled = isinstance(S, ast.ClassDef) or any(n.startswith('__') and not n.endswith('__') for n in mine)

    if mangled and any(n.startswith('__') and not n.endswith('__') for n in mine):
        return None  # private name mangling: names differ textually

    missing = {n for n in mine if n not in names and not n.startswith('.')}

    if missing:
        return f'R1 names not in symtable: {sorted(missing)[:5]}'

    for n in r1['global']:
        if not names[n].is_declared_global():
            return f'{n} declared global in R1 only'

    for n in r1['nonlocal']:
        if not names[n].is_nonlocal():
            return f'{n} declared nonlocal in R1 only'

    for n in r1['store']:
        s = names[n]

        if not (s.is_assigned() or s.is_parameter() or s.is_imported() or s.is_namespace()):
            return f'store of {n} in R1 but not bound in symtable'

    for n, occ in r1['load'].items():
        if not names[n].is_referenced() and not all(isinstance(getattr(o, 'ctx', None), ast.Store) for o in occ):  # AugAssign targets are "loads" by pfst's documented definition only
            return f'load of {n} in R1 but not referenced in symtable'

    return None


# ----------------------------------------------------------------------------------------------------------------------

TOLERATED_STRUCTURAL = (ast.arguments, ast.comprehension, ast.expr_context, ast.operator, ast.unaryop, ast.cmpop, ast.boolop, ast.keyword, ast.withitem,
                        ast.match_case, ast.type_param)


def has_type_params(S):
    return any(getattr(n, 'type_params', None) or isinstance(n, ast.TypeAlias) for n in ast.walk(S))


def execute(case, ctx):
    if 'file' in case:
        loaded = gen.load_file(case['file'])

        if loaded is None:
            raise Skip('file_not_parseable_by_cpython')

        src = loaded[0]

        if len(src) > 150_000:
            raise Skip('file_too_large')
    else:
        src = case['src']

    try:
        root = FST(src, 'exec')
        stabs = symtable_index(src)
    except SyntaxError:
        raise Skip('symtable_rejects(compile-time error)') from None
    except Exception as exc:
        raise Skip(f'build_failed:{type(exc).__name__}') from None

    src_hash = hash(src)
    scopes = [n for n in ast.walk(root.a) if isinstance(n, SCOPES)]

    for S in scopes:
        if has_type_params(S):
            ctx.count('scope_with_type_params_skipped')

            continue

        r1 = r1_symbols(S)
        why = check_r1_vs_symtable(S, r1, stabs)

        if why:
            ctx.count('r1_r2_disagree(scope skipped)')
            ctx.count(f'r1_r2:{why.split(" ")[0]} {why.split(" ")[1] if " " in why else ""}')

            if len(ctx.samples) < 3:
                ctx.samples.append({'r1_r2_disagreement': why, 'scope': f'{S.__class__.__name__}@{getattr(S, "lineno", 0)}', 'source': (ast.get_source_segment(src, S) or src)[:300]})

            continue

        ctx.count('scopes')
        f = S.f
        where = f'{S.__class__.__name__} at line {getattr(S, "lineno", 0)}'
        site = S.__class__.__name__

        # ---- walk(scope=True)
        got_nodes = [g.a for g in f.walk(all=True, scope=True)]
        got_ids = {id(a) for a in got_nodes}

        if len(got_ids) != len(got_nodes):
            raise Violation('C16.walk_twice', f'walk(scope=True) on {where} yields a node twice', f'walk:{site}')

        want_nodes = [S] + r1['nodes'] + (r1['walrus'])
        want_ids = {id(a) for a in want_nodes}

        for a in got_nodes:
            if id(a) not in want_ids and not isinstance(a, TOLERATED_STRUCTURAL):
                raise Violation('C16.walk_extra', f'walk(scope=True) on {where} yields {a.__class__.__name__} at line {getattr(a, "lineno", "?")}:{getattr(a, "col_offset", "?")} '
                                f'which does not belong to this scope ({ast.unparse(a)[:60]!r})\n--- scope source ---\n{(ast.get_source_segment(src, S) or src)[:600]}', f'walk_extra:{site}:{a.__class__.__name__}')

        for a in want_nodes:
            if id(a) not in got_ids and not isinstance(a, TOLERATED_STRUCTURAL):
                raise Violation('C16.walk_missing', f'walk(scope=True) on {where} does not yield {a.__class__.__name__} at line {getattr(a, "lineno", "?")}:{getattr(a, "col_offset", "?")} '
                                f'which belongs to this scope ({ast.unparse(a)[:60]!r})\n--- scope source ---\n{(ast.get_source_segment(src, S) or src)[:600]}', f'walk_missing:{site}:{a.__class__.__name__}')

        # ---- scope_symbols(full=True)
        try:
            syms = f.scope_symbols(full=True)
        except Exception as exc:
            raise Violation('C16.symbols_raise', f'scope_symbols(full=True) on {where} raised {exc!r}', f'symbols_raise:{site}') from None

        is_comp = isinstance(S, COMPS)
        want = {k: {n: v for n, v in r1[k].items()} for k in ('load', 'store', 'del', 'global', 'nonlocal')}
        declared = set(want['global']) | set(want['nonlocal'])

        if is_comp:
            # walrus targets inside a comprehension: stored there syntactically but bound in the enclosing function (documented)
            for t in [n.target for n in r1['nodes'] if isinstance(n, ast.NamedExpr) and isinstance(n.target, ast.Name)] + r1['walrus']:
                pass

        want['local'] = {n: v for n, v in want['store'].items() if n not in declared and n not in r1['walrus_names']}
        want['free'] = {n: v for n, v in want['load'].items() if n not in want['store'] and n not in want['del'] and n not in declared}

        if is_comp and r1['walrus_names']:
            ctx.count('comprehension_with_walrus(name classes compared loosely)')
            cats = ('load', 'del', 'global', 'nonlocal')
        else:
            cats = ('load', 'store', 'del', 'global', 'nonlocal', 'local', 'free')

        for cat in cats:
            got = syms.get(cat, {})
            gnames, wnames = set(got), set(want[cat])

            if gnames != wnames:
                miss = sorted(wnames - gnames)
                extra = sorted(gnames - wnames)

                raise Violation('C16.symbols', f'scope_symbols(full=True)[{cat!r}] on {where}: missing {miss[:6]} extra {extra[:6]}\n--- scope source ---\n{(ast.get_source_segment(src, S) or src)[:700]}',
                                f'symbols:{cat}:{"missing" if miss else "extra"}')

            if cat in ('load', 'store', 'del'):
                for name in wnames:
                    gl = [id(x.a) for x in got[name]]
                    wl = [id(x) for x in want[cat][name]]

                    if gl != wl:
                        raise Violation('C16.symbol_nodes', f'scope_symbols(full=True)[{cat!r}][{name!r}] on {where}: node list differs from the reference ({len(gl)} vs {len(wl)} nodes)',
                                        f'symbol_nodes:{cat}')

        # plain (full=False) form: union of all names
        plain = f.scope_symbols()
        all_names = set().union(*(set(want[c]) for c in ('load', 'store', 'del', 'global', 'nonlocal')))

        if set(plain) != all_names and not (is_comp and r1['walrus_names']):
            raise Violation('C16.symbols_plain', f'scope_symbols() on {where}: names {sorted(set(plain) ^ all_names)[:8]} differ from the union of the categories', f'plain:{site}')

        nested = any(isinstance(n, SCOPES) for n in r1['nodes'])
        capture = any(isinstance(n, (ast.ExceptHandler, ast.MatchAs, ast.MatchStar, ast.MatchMapping)) for n in r1['nodes'])

        if nested or capture or want['global'] or want['nonlocal'] or r1['walrus']:
            ctx.mark_nontrivial((src_hash, getattr(S, 'lineno', 0), getattr(S, 'col_offset', 0), S.__class__.__name__),
                                {'scope': where, 'source': (ast.get_source_segment(src, S) or src)[:200], 'names': {c: sorted(want[c])[:8] for c in cats}}
                                if getattr(S, 'lineno', 0) % 40 == 1 else None)
