"""C20 - options and edits are isolated per call, per block and per thread."""

from __future__ import annotations

import sys
import threading

from hypothesis import strategies as st

from .. import editmachine as em
from .. import gen
from ..editmachine import FST
from ..oracle import T
from ..runner import Skip, Violation, fst_site

ID = 'C20'
LEVEL = 'exploration'
TECHNIQUE = ('stateful property-based testing of the option store against a dict model (set / nested blocks with and without exceptions / invalid requests / per-call options), '
             'metamorphic equivalence per-call == block == default, and harness-owned thread schedules (operation granularity and sys.settrace line pre-emption) compared with solo runs')
RULE = ('(A) option algebra: Hypothesis-drawn programs of set_options / nested options() blocks whose body may raise / invalid names and values (alone or mixed with valid ones) / '
        'option-sensitive edits with per-call options, executed against a dict model written from the documentation: after every step FST.get_options() equals the model; '
        'a block restores exactly the options it named, also when its body raises; a rejected request changes nothing (options and, for per-call options, the tree); '
        'every edit of a table of 21 option-sensitive edits (7 through the assignment-style API); every ordered pair of them with default options: the second gives its baseline result, in the same thread and in a new one; every edit gives the same result with an option passed per call, set by a block and set as default; whenever the model is '
        'back at the library defaults the edits give their baseline results. (B) threads: 2-3 worker threads, each with its own tree, its own option steps and an edit script, '
        'are run by a scheduler that owns the interleaving: at operation granularity (every drawn order of steps) and with line-level pre-emption inside pfst calls '
        '(sys.settrace in the workers, drawn pre-emption points); observed per thread: get_options() after every step, result / exception of every edit, final source and '
        'positioned dump; all must equal the same thread\'s script run alone; a new thread starts from the library defaults whatever the main thread has set; the modification '
        'registry is empty at the end. (C) every ordered pair of table edits with default options against a baseline computed in fresh interpreters, and every '
        'ordered pair (and a-b-a triple) of option-dependent read-only queries on ONE tree (own_src / own_lines / copy / get_slice with docstr, trivia, pars, norm_get given '
        'to the call, by an enclosing options() block, or left to the default): each must give what it gives alone on a fresh tree (per-node caches must be keyed by the '
        'effective option). Non-trivial = (A) a program with a nested block, a raising body or a rejected request; (B) a schedule in which some thread is '
        'pre-empted between two of its steps or inside a pfst call while another thread changes options or edits; distinct by case.')
ASSUMPTIONS = [
    'the WARNING in options() is part of the model: only the options named by a block are restored on exit',
    'valid and invalid option values are taken from tables written from the option documentation (not from the validators)',
    'pre-emption is simulated by handing control between real threads at line events (one runs at a time): a deterministic subset of the interleavings the GIL allows',
    'fst.fst_core._MODIFYING is read directly (named in the property anchors)',
]

VALID = {
    'raw': [False, True, 'auto'],
    'trivia': [True, False, 'all', 'block', 'none', 'all+', 'block-1', 'none+2', '+', '-3', 0, 3, (), ('line',), (False, 'none'), ('all+1', 'line-'), (2, 5), ('block', 'all')],
    'coerce': [True, False], 'promote': [True, False, 'identifier', 'all'], 'elif_': [True, False], 'pep8space': [True, False, 1], 'docstr': [True, False, 'strict'],
    'pars': [True, False, 'auto'], 'pars_walrus': [True, False, None], 'pars_arglike': [True, False, None], 'norm': [True, False, 'star', 'call'],
    'norm_self': [True, False, None, 'star', 'call'], 'norm_get': [True, False, None, 'star', 'call'], 'set_norm': ['star', 'call'], 'op_side': ['left', 'right'],
    'op': [None, '==', 'is not'], 'args_as': [None, 'pos', 'arg', 'kw', 'arg_only', 'kw_only', 'pos_maybe', 'arg_maybe', 'kw_maybe'],
}
INVALID = {
    'raw': [None, 2, 'yes'], 'trivia': ['foo', ('a',), ('all', 'block', 'none'), 1.5, None, ('line', 'all'), 'line'], 'coerce': [None, 1, 'x'], 'promote': ['x', None, 2],
    'elif_': [None, 0], 'pep8space': [2, None, 'x'], 'docstr': ['loose', None], 'pars': [None, 'x'], 'pars_walrus': ['auto', 1], 'pars_arglike': ['auto', 0],
    'norm': [None, 'x'], 'norm_self': ['x', 1], 'norm_get': ['x', 2], 'set_norm': [True, None, 'x'], 'op_side': ['middle', None], 'op': [1, 3.5], 'args_as': ['x', True],
}
UNKNOWN = ['bogus', 'Pars', 'trivia_', 'norm_put', 'to', 'ins_ln']  # the last two are call-only options: not settable as defaults
NAMES = sorted(VALID)


def run_catch(fn):
    try:
        return fn()
    except Exception as exc:
        return ('EXC', type(exc).__name__, str(exc)[:200])


def _e_trivia(o):
    f = FST('if a:\n    # c\n\n    x  # d\n\n    y', 'exec')
    p = f.body[0].body[0].cut(**o)

    return p.src, f.src


def _e_pars(o):
    f = FST('x = (a, b)\ny = (c)', 'exec')

    return f.body[0].value.copy(**o).src, f.body[1].value.copy(**o).src


def _e_walrus(o):
    f = FST('[a, b]', 'expr')
    f.elts[0].replace('c := 1', **o)

    return f.src, FST('x = (c := 1)', 'exec').body[0].value.copy(**o).src


def _e_norm(o):
    f = FST('{a}', 'expr')
    f.elts[0].remove(**o)

    return f.src


def _e_norm_get(o):
    return FST('{a, b}', 'expr').get_slice(0, 0, 'elts', **o).src


def _e_elif(o):
    f = FST('if a: pass\nelse:\n    x', 'exec')
    f.body[0].put_slice('if c: pass', 0, 1, 'orelse', **o)

    return f.src


def _e_docstr(o):
    return FST('class c:\n    def f():\n        """doc\n        more"""\n        x = """s\n        t"""', 'exec').body[0].body[0].copy(**o).src


def _e_pep8(o):
    f = FST('x\ny', 'exec')
    f.put_slice('def f(): pass', 1, 1, 'body', **o)

    return f.src


def _e_arglike(o):
    f = FST('[a]', 'expr')
    f.elts[0].replace(FST('*not b', 'expr_arglike'), **o)

    return f.src


def _e_raw(o):
    f = FST('a + b', 'expr')
    f.left.replace('c if d else e', **o)

    return f.src


def _e_coerce(o):
    f = FST('[x]', 'expr')
    f.elts[0].replace(FST('a', 'pattern'), **o)

    return f.src


def _e_promote(o):
    g = FST('global a, b', 'stmt').get_slice(0, 1, 'names', **o)

    return g.src if isinstance(g, FST) else repr(g)


def _e_op_side(o):
    f = FST('a < b < c', 'expr')

    return f.get_slice(1, 2, '_all', **o).src


def _e_args_as(o):
    f = FST('def f(a, b): pass', 'stmt')
    f.args.put_slice('c, d', 0, 1, '_all', **o)

    return f.src


# assignment-style API (attribute / index assignment and deletion): these calls carry no options of their own, whatever an operation sets
# internally must not survive the call
def _e_assign_import(o):
    with FST.options(**o):
        f = FST('import a, b', 'stmt')
        f.names[0] = 'x as y'

        return f.src


def _e_assign_importfrom(o):
    with FST.options(**o):
        f = FST('from m import a, b', 'stmt')
        f.names[1] = 'x as y'
        del f.names[0]

        return f.src


def _e_assign_binop(o):
    with FST.options(**o):
        f = FST('x = a * b', 'exec')
        f.body[0].value.left = 'c + d'

        return f.src


def _e_assign_call(o):
    with FST.options(**o):
        f = FST('r = f(a, k=v)', 'exec')
        f.body[0].value.args[0] = 'p if q else r'
        f.body[0].value.keywords[0] = 'kk=(yield)'
        f.body[0].value.func = 'lambda: g'

        return f.src


def _e_assign_stmt(o):
    with FST.options(**o):
        f = FST('if a:\n    x  # c\n    y\nelse:\n    z', 'exec')
        f.body[0].body[0] = 'w = (1,\n 2)'
        del f.body[0].orelse[0]
        f.body[0].test = 'b := c'

        return f.src


def _e_assign_args(o):
    with FST.options(**o):
        f = FST('def f(a, b=1, *c): pass\nwith p as q: pass', 'exec')
        f.body[0].args.args[0] = 'z: int'
        f.body[0].args.defaults[0] = 'u, v'
        f.body[1].items[0] = 'r, s'

        return f.src


def _e_assign_slice(o):
    with FST.options(**o):
        f = FST('x = [a, b, c]\nt = u, v', 'exec')
        f.body[0].value.elts[1:2] = 'p, (q := 1)'
        f.body[1].value.elts[0] = 'i, j'
        del f.body[0].value.elts[0]

        return f.src


EDITS = (_e_assign_import, _e_assign_importfrom, _e_assign_binop, _e_assign_call, _e_assign_stmt, _e_assign_args, _e_assign_slice, _e_trivia, _e_pars, _e_walrus, _e_norm, _e_norm_get, _e_elif, _e_docstr, _e_pep8, _e_arglike, _e_raw, _e_coerce, _e_promote, _e_op_side, _e_args_as)
_DEFAULTS = None
_BASELINE = None


def library_defaults():
    """get_options() as seen by a brand new thread."""

    global _DEFAULTS

    if _DEFAULTS is None:
        box = []
        t = threading.Thread(target=lambda: box.append(FST.get_options()))
        t.start()
        t.join()
        _DEFAULTS = box[0]

    return dict(_DEFAULTS)


def baseline():
    """Result of every table edit with default options, each computed in its OWN fresh interpreter, so that nothing an earlier operation of this
    process may have left behind (a mutated default argument, a module global) can be part of the baseline."""

    global _BASELINE

    if _BASELINE is None:
        import ast as _ast
        import os
        import subprocess
        from concurrent.futures import ThreadPoolExecutor

        verif = os.path.dirname(os.path.dirname(os.path.dirname(os.path.abspath(__file__))))

        def one(i):
            code = (f'import sys; sys.path.insert(0, {verif!r}); from pfstverif.checks import c20; '
                    f'print("RESULT:" + repr(c20.run_catch(lambda: c20.EDITS[{i}]({{}}))))')
            r = subprocess.run([sys.executable, '-c', code], capture_output=True, text=True, env=dict(os.environ, PYTHONHASHSEED='0'))
            line = next((l for l in r.stdout.splitlines() if l.startswith('RESULT:')), None)

            if line is None:
                raise RuntimeError(f'baseline subprocess for edit {i} failed: {r.stderr[-500:]}')

            return _ast.literal_eval(line[7:])

        with ThreadPoolExecutor(8) as ex:
            _BASELINE = list(ex.map(one, range(len(EDITS))))

    return _BASELINE


def enumerate_cases(tier, shard, nshards, seed):
    """Every ordered pair (A, B) of the option-sensitive edits, with default options: B after A must give B's baseline result (nothing an operation
    sets internally - e.g. a forced pars=False - may survive the call), in the same thread and from another thread."""

    k = 0

    for a in range(len(EDITS)):
        for b in range(len(EDITS)):
            k += 1

            if k % nshards == shard:
                yield {'kind': 'pair', 'a': a, 'b': b}

    # every ordered pair of option-dependent read-only queries on one tree, and the triples that end in a repetition of the first
    n = len(query_specs())

    for a in range(n):
        for b in range(n):
            k += 1

            if k % nshards == shard:
                yield {'kind': 'queries', 'seq': [a, b]}
                yield {'kind': 'queries', 'seq': [a, b, a]}


# ---- read-only queries whose result depends on an option, repeated on ONE tree (per-node caches live between the calls)
QUERY_SRC = ('class c:\n    def f(self):\n        """doc\n        more"""\n        if x:\n            """s\n            t"""\n        # lead\n        y = (a, b)  # tail\n'
             '        z = {p, q}\n        return (yield)\n')


def _q_own_src(t, o):
    return t.body[0].body[0].own_src(**o)


def _q_own_lines(t, o):
    return '\n'.join(t.body[0].body[0].body[1].own_lines(**o))


def _q_copy_def(t, o):
    return t.body[0].body[0].copy(**o).src


def _q_copy_stmt(t, o):
    return t.body[0].body[0].body[2].copy(**o).src


def _q_copy_tuple(t, o):
    return t.body[0].body[0].body[2].value.copy(**o).src


def _q_get_empty_set(t, o):
    return t.body[0].body[0].body[3].value.get_slice(0, 0, 'elts', **o).src


QUERIES = (
    (_q_own_src, 'docstr', (True, False, 'strict'), False),  # last: the option can be given as a keyword of the call only (not through **options)
    (_q_own_lines, 'docstr', (True, False, 'strict'), False),
    (_q_copy_def, 'docstr', (True, False, 'strict'), True),
    (_q_copy_stmt, 'trivia', (True, False, 'all'), True),
    (_q_copy_tuple, 'pars', (True, False, 'auto'), True),
    (_q_get_empty_set, 'norm_get', (True, False), True),
)
QUERY_MODES = ('call', 'block', 'default')


def query_specs():
    out = []

    for qi, (fn, opt, values, _) in enumerate(QUERIES):
        out.append((qi, None, 'default'))

        for vi in range(len(values)):
            out.append((qi, vi, 'call'))
            out.append((qi, vi, 'block'))

    return out


def run_query(tree, spec):
    qi, vi, mode = spec
    fn, opt, values, _ = QUERIES[qi]

    if mode == 'default':
        return run_catch(lambda: fn(tree, {}))

    if mode == 'call':
        return run_catch(lambda: fn(tree, {opt: values[vi]}))

    def blocked():
        with FST.options(**{opt: values[vi]}):
            return fn(tree, {})

    return run_catch(blocked)


def execute_queries(case, ctx):
    """Two or three option-dependent read-only queries on the same tree: each must give what it gives alone on a fresh tree with the same
    effective option value (given to the call, set by an enclosing block, or the default)."""

    specs = query_specs()
    seq = [specs[i] for i in case['seq']]
    tree = FST(QUERY_SRC, 'exec')
    src0 = tree.src

    for k, spec in enumerate(seq):
        got = run_query(tree, spec)
        want = run_query(FST(QUERY_SRC, 'exec'), spec)
        ctx.count('same_tree_queries')

        if got != want:
            fn, opt, values, _ = QUERIES[spec[0]]
            how = 'default options' if spec[2] == 'default' else f'{opt}={values[spec[1]]!r} given {"to the call" if spec[2] == "call" else "by an enclosing options() block"}'
            prev = [f'{QUERIES[s[0]][0].__name__}[{s[2]}{"" if s[1] is None else ":" + repr(QUERIES[s[0]][2][s[1]])}]' for s in seq[:k]]

            raise Violation('C20.query_leak', f'{fn.__name__} with {how} after {prev} on the same tree gives {got!r}, alone on a fresh tree it gives {want!r}',
                            f'query_leak:{fn.__name__}:{spec[2]}')

    if tree.src != src0:
        raise Violation('C20.query_leak', 'read-only queries changed the source', 'query_changed_source')

    if not same_opts(FST.get_options(), library_defaults()) and threading.current_thread() is threading.main_thread() and False:
        pass

    if len({(s[0], s[1]) for s in seq}) > 1:
        ctx.mark_nontrivial(('queries', tuple(case['seq'])), {'queries': [f'{QUERIES[s[0]][0].__name__}:{s[2]}:{None if s[1] is None else QUERIES[s[0]][2][s[1]]}' for s in seq]}
                            if sum(case['seq']) % 53 == 0 else None)


def prepare(tier):
    baseline()
    library_defaults()


def params(tier):
    if tier == 'quick':
        return {'examples': 700, 'wall': 130, 'case_timeout': 60}

    return {'examples': 9000, 'wall': 600, 'case_timeout': 120}


def floors(tier):
    return {'distinct_nontrivial': 400 if tier == 'quick' else 5000}


# ----------------------------------------------------------------------------------------------------------------------
# strategies

def valid_opts(draw, n_max=3):
    names = draw(st.lists(st.sampled_from(NAMES), min_size=1, max_size=n_max, unique=True))

    return {n: draw(st.sampled_from(VALID[n])) for n in names}


def bad_opts(draw):
    kind = draw(st.sampled_from(['unknown', 'value', 'mixed_unknown', 'mixed_value']))
    o = {}

    if kind.startswith('mixed'):
        o.update(valid_opts(draw, 2))

    if kind.endswith('unknown'):
        o[draw(st.sampled_from(UNKNOWN))] = draw(st.sampled_from([True, 1, 'x']))
    else:
        n = draw(st.sampled_from(NAMES))
        o[n] = draw(st.sampled_from(INVALID[n]))

    if draw(st.booleans()):  # invalid entry first or last
        o = dict(reversed(list(o.items())))

    return o


@st.composite
def algebra_program(draw, depth=0):
    n = draw(st.integers(1, 5 if depth else 8))
    prog = []

    for _ in range(n):
        k = draw(st.sampled_from(['set', 'block', 'block', 'bad_set', 'bad_block', 'edit', 'edit', 'bad_call', 'equiv'] if depth < 3 else ['set', 'bad_set', 'edit', 'equiv']))

        if k == 'set':
            prog.append(['set', valid_opts(draw)])
        elif k == 'block':
            prog.append(['block', valid_opts(draw), draw(algebra_program(depth + 1)), draw(st.booleans())])
        elif k == 'bad_set':
            prog.append(['bad_set', bad_opts(draw)])
        elif k == 'bad_block':
            prog.append(['bad_block', bad_opts(draw)])
        elif k == 'edit':
            prog.append(['edit', draw(st.integers(0, len(EDITS) - 1)), valid_opts(draw) if draw(st.booleans()) else {}])
        elif k == 'bad_call':
            prog.append(['bad_call', draw(st.integers(0, 1000)), bad_opts(draw)])
        else:
            prog.append(['equiv', draw(st.integers(0, len(EDITS) - 1)), valid_opts(draw, 2)])

    return prog


@st.composite
def thread_script(draw, max_steps):
    steps = []
    n = draw(st.integers(2, max_steps))
    depth = 0

    for _ in range(n):
        k = draw(st.sampled_from(['set', 'enter', 'exit', 'edit', 'edit', 'edit', 'table', 'bad_set']))

        if k == 'set':
            steps.append(['set', valid_opts(draw)])
        elif k == 'enter' and depth < 3:
            steps.append(['enter', valid_opts(draw)])
            depth += 1
        elif k == 'exit' and depth:
            steps.append(['exit'])
            depth -= 1
        elif k == 'table':
            steps.append(['table', draw(st.integers(0, len(EDITS) - 1)), valid_opts(draw, 2) if draw(st.booleans()) else {}])
        elif k == 'bad_set':
            steps.append(['bad_set', bad_opts(draw)])
        else:
            steps.append(['edit', draw(em.step_strategy(True))])

    steps.extend(['exit'] for _ in range(depth))

    return steps


def strategy(tier):
    @st.composite
    def strat(draw):
        kind = draw(st.sampled_from(['algebra', 'algebra', 'threads', 'threads', 'preempt', 'preempt']))

        if kind == 'algebra':
            return {'kind': kind, 'prog': draw(algebra_program()), 'main_pre': valid_opts(draw) if draw(st.booleans()) else {}}

        nthreads = draw(st.integers(2, 3))
        threads = [{'src': draw(gen.program(14)), 'script': draw(thread_script(6 if kind == 'preempt' else 8))} for _ in range(nthreads)]
        case = {'kind': kind, 'threads': threads, 'main_pre': valid_opts(draw) if draw(st.booleans()) else {},
                'schedule': draw(st.lists(st.integers(0, 5), min_size=4, max_size=60))}

        if kind == 'preempt':
            case['points'] = [sorted(draw(st.lists(st.integers(1, 4000), min_size=1, max_size=12, unique=True))) for _ in range(nthreads)]

        return case

    return strat()


# ----------------------------------------------------------------------------------------------------------------------
# (A) option algebra

def opts_of(d):
    return {k: (tuple(v) if isinstance(v, list) else v) for k, v in d.items()}


class BodyError(Exception):
    pass


def same_opts(a, b):
    """dict equality that tells True from 1 (pep8space=1 is not pep8space=True)."""

    return a.keys() == b.keys() and all(type(a[k]) is type(b[k]) and a[k] == b[k] for k in a)


def check_model(model, where, site):
    got = FST.get_options()

    if not same_opts(got, model):
        diff = {k: (got.get(k), model.get(k)) for k in set(got) | set(model) if got.get(k, '<absent>') != model.get(k, '<absent>')}

        raise Violation('C20.store', f'{where}: get_options() differs from the model (got, expected): {diff}', f'store:{site}')


def run_algebra(prog, model, ctx, flags, path='top'):
    for i, step in enumerate(prog):
        k = step[0]
        where = f'{path}[{i}] {k}'

        if k == 'set':
            o = opts_of(step[1])
            old_expect = {n: model[n] for n in o}

            try:
                old = FST.set_options(**o)
            except Exception as exc:
                raise Violation('C20.valid_rejected', f'{where}: set_options({o}) raised {exc!r} for documented-valid values', f'valid_rejected:{sorted(o)}') from None

            if old != old_expect:
                raise Violation('C20.set_return', f'{where}: set_options({o}) returned {old}, previous values were {old_expect}', 'set_return')

            model.update(o)

        elif k == 'block':
            o = opts_of(step[1])
            entry = {n: model[n] for n in o}
            raises = step[3]
            flags.add('block' if path == 'top' else 'nested')

            try:
                with FST.options(**o) as old:
                    if dict(old) != entry:
                        raise Violation('C20.block_old', f'{where}: options({o}) yielded {dict(old)}, previous values were {entry}', 'block_old')

                    model.update(o)
                    check_model(model, where + ' (entered)', 'enter')
                    run_algebra(step[2], model, ctx, flags, f'{path}[{i}].body')

                    if raises:
                        flags.add('raising_body')

                        raise BodyError()
            except BodyError:
                if not raises:
                    raise

            model.update(entry)  # documented: only the options named by the block are restored

        elif k in ('bad_set', 'bad_block'):
            o = opts_of(step[1])
            flags.add('rejected')

            try:
                if k == 'bad_set':
                    FST.set_options(**o)
                else:
                    with FST.options(**o):
                        pass
            except ValueError:
                ctx.count('rejected_requests')
            except Exception as exc:
                raise Violation('C20.reject_type', f'{where}: {o} raised {exc!r} instead of ValueError', f'reject_type:{type(exc).__name__}') from None
            else:
                raise Violation('C20.not_rejected', f'{where}: invalid request {o} was accepted', f'not_rejected:{k}:{sorted(map(str, o))}')

        elif k == 'edit':
            o = opts_of(step[2])
            res = run_catch(lambda: EDITS[step[1]](o))
            ctx.count('edits')

            # the same edit under a model-equivalent fresh thread state must agree: per-call option == block == default
            if same_opts(model, library_defaults()) and not o and res != baseline()[step[1]]:
                raise Violation('C20.leak', f'{where}: edit {EDITS[step[1]].__name__} with defaults restored gives {res}, baseline {baseline()[step[1]]}',
                                f'leak:{EDITS[step[1]].__name__}')

        elif k == 'equiv':
            o = opts_of(step[2])
            e = EDITS[step[1]]
            a = run_catch(lambda: e(o))

            def in_block():
                with FST.options(**o):
                    return e({})

            b = run_catch(in_block)

            def as_default():
                old = FST.set_options(**o)

                try:
                    return e({})
                finally:
                    FST.set_options(**old)

            c = run_catch(as_default)
            ctx.count('equivalences')

            if not (a == b == c):
                raise Violation('C20.equiv', f'{where}: {e.__name__} with {o}: per call {a} / in block {b} / as default {c}', f'equiv:{e.__name__}:{sorted(o)}')

        elif k == 'bad_call':
            o = opts_of(step[2])
            f = FST('x = [a, b]\nif c:\n    d', 'exec')
            snap = (f.src, T(f.a))
            calls = (lambda: f.body[0].value.elts[0].replace('z', **o), lambda: f.body[1].body[0].remove(**o), lambda: f.body[0].value.copy(**o),
                     lambda: f.body[0].value.put_slice('p, q', 0, 1, 'elts', **o), lambda: f.body[0].cut(**o), lambda: f.body[1].get_slice(0, 1, 'body', **o))
            call = calls[step[1] % len(calls)]
            flags.add('rejected')

            if any(n in ('to', 'ins_ln') for n in o):  # call-only options are legitimate in a call
                ctx.count('bad_call_skipped_call_only_option')
            else:
                try:
                    call()
                except ValueError:
                    ctx.count('rejected_calls')
                except Exception as exc:
                    raise Violation('C20.reject_type', f'{where}: call with {o} raised {exc!r} instead of ValueError', f'reject_type_call:{type(exc).__name__}') from None
                else:
                    raise Violation('C20.not_rejected', f'{where}: call with invalid options {o} was accepted', f'not_rejected_call:{sorted(map(str, o))}')

                if (f.src, T(f.a)) != snap:
                    raise Violation('C20.reject_changed', f'{where}: call with {o} was rejected but the tree changed: {f.src!r}', 'reject_changed')

        check_model(model, where, k)


def execute_algebra(case, ctx):
    box = []

    def work():
        try:
            model = library_defaults()
            check_model(model, 'new thread', 'fresh_thread')
            flags = set()
            run_algebra(case['prog'], model, ctx, flags)
            box.append(('ok', flags))
        except BaseException as exc:
            box.append(('exc', exc))

    main_old = FST.set_options(**opts_of(case.get('main_pre', {})))

    try:
        t = threading.Thread(target=work)
        t.start()
        t.join()
    finally:
        FST.set_options(**main_old)

    if box[0][0] == 'exc':
        raise box[0][1]

    flags = box[0][1]

    if flags & {'nested', 'raising_body', 'rejected'}:
        ctx.mark_nontrivial(case, {'program': case['prog'], 'features': sorted(flags)} if len(case['prog']) <= 3 else None)


# ----------------------------------------------------------------------------------------------------------------------
# (B) threads with a harness-owned schedule

class Worker:
    def __init__(self, idx, spec, sched, points=None):
        self.idx = idx
        self.spec = spec
        self.sched = sched
        self.points = set(points or ())
        self.go = threading.Semaphore(0)
        self.done = False
        self.log = []
        self.error = None
        self.lines = 0
        self.preempted = 0
        self.thread = threading.Thread(target=self.run, daemon=True)

    # --- executed in the worker thread

    def tracer(self, frame, event, arg):
        if event == 'call':
            fn = frame.f_code.co_filename

            return self.tracer if '/fst/' in fn else None

        if event == 'line':
            self.lines += 1

            if self.lines in self.points:
                self.preempted += 1
                self.sched.yield_(self)

        return self.tracer

    def run(self):
        self.go.acquire()

        try:
            if self.points:
                sys.settrace(self.tracer)

            self.body()
        except BaseException as exc:  # noqa: BLE001
            self.error = exc
        finally:
            sys.settrace(None)
            self.done = True
            self.sched.back.release()

    def body(self):
        log = self.log
        log.append(('start', FST.get_options()))
        root = FST(self.spec['src'], 'exec')
        blocks = []

        for step in self.spec['script']:
            k = step[0]

            if k == 'set':
                log.append(('set', run_catch(lambda: FST.set_options(**opts_of(step[1])))))
            elif k == 'bad_set':
                log.append(('bad_set', run_catch(lambda: FST.set_options(**opts_of(step[1])))))
            elif k == 'enter':
                cm = FST.options(**opts_of(step[1]))
                log.append(('enter', run_catch(lambda: dict(cm.__enter__()))))
                blocks.append(cm)
            elif k == 'exit':
                if blocks:
                    blocks.pop().__exit__(None, None, None)

                log.append(('exit',))
            elif k == 'table':
                log.append(('table', run_catch(lambda: EDITS[step[1]](opts_of(step[2])))))
            else:
                try:
                    ap = em.apply_step(root, step[1], {})
                    log.append(('edit', ap.raised, type(ap.exc).__name__ if ap.exc is not None else None, root.src))
                except em.StepSkipped as s:
                    log.append(('skipped', s.reason))

            log.append(('opts', FST.get_options()))

            if not self.points:
                self.sched.yield_(self)  # operation granularity: a scheduling point after every step

        log.append(('final', root.src, T(root.a)))


class Scheduler:
    def __init__(self, schedule):
        self.schedule = list(schedule) or [0]
        self.pos = 0
        self.back = threading.Semaphore(0)
        self.switches = 0

    def yield_(self, worker):
        """Called in a worker: hand control back to the scheduler and wait to be resumed."""

        self.back.release()
        worker.go.acquire()

    def run(self, workers, deadline=50.0):
        for w in workers:
            w.thread.start()

        last = None

        while True:
            runnable = [w for w in workers if not w.done]

            if not runnable:
                break

            w = runnable[self.schedule[self.pos % len(self.schedule)] % len(runnable)]
            self.pos += 1

            if last is not None and w is not last and not last.done:
                self.switches += 1

            last = w
            w.go.release()

            if not self.back.acquire(timeout=deadline):
                raise Violation('C20.hang', f'worker {w.idx} did not come back within {deadline}s', 'hang')

        for w in workers:
            w.thread.join(5)


def solo(spec):
    sched = Scheduler([0])
    w = Worker(0, spec, sched)
    w.points = set()
    sched.run([w])

    return w


def execute_threads(case, ctx):
    specs = case['threads']
    main_old = FST.set_options(**opts_of(case.get('main_pre', {})))

    try:
        ref = [solo(s) for s in specs]
        sched = Scheduler(case['schedule'])
        pts = case.get('points') or [None] * len(specs)
        workers = [Worker(i, s, sched, pts[i]) for i, s in enumerate(specs)]
        sched.run(workers)
    finally:
        FST.set_options(**main_old)

    defaults = library_defaults()

    for i, (r, w) in enumerate(zip(ref, workers)):
        for x, name in ((r, 'alone'), (w, 'concurrent')):
            if x.error is not None and not isinstance(x.error, Violation):
                raise Violation('C20.thread_raise', f'thread {i} ({name}) died with {x.error!r}', f'thread_raise:{type(x.error).__name__}@{fst_site(x.error)}')

            if isinstance(x.error, Violation):
                raise x.error

        if not same_opts(w.log[0][1], defaults):
            raise Violation('C20.thread_start', f'thread {i} did not start from the library defaults: {w.log[0][1]} (main thread had set {case.get("main_pre")})', 'thread_start')

        if r.log != w.log:
            j = next((j for j, (a, b) in enumerate(zip(r.log, w.log)) if a != b), min(len(r.log), len(w.log)))
            a = r.log[j] if j < len(r.log) else None
            b = w.log[j] if j < len(w.log) else None
            what = (a[0] if a else b[0])

            raise Violation('C20.isolation', f'thread {i}: log entry {j} differs between running alone and running concurrently\n alone:      {str(a)[:400]}\n concurrent: {str(b)[:400]}',
                            f'isolation:{what}:{case["kind"]}')

    try:
        from fst import fst_core

        if fst_core._MODIFYING:
            raise Violation('C20.registry', f'modification registry not empty after all threads finished: {len(fst_core._MODIFYING)} entries', 'registry')
    except ImportError:
        pass

    ctx.count(f'threads:{len(specs)}')
    ctx.count('switches', sched.switches)
    pre = sum(w.preempted for w in workers)
    ctx.count('preemptions_inside_pfst', pre)

    if sched.switches and (case['kind'] == 'threads' or pre):
        ctx.mark_nontrivial(case, {'kind': case['kind'], 'threads': len(specs), 'switches': sched.switches, 'preemptions_inside_pfst_calls': pre,
                                   'script_0': [s[0] for s in specs[0]['script']]} if sched.switches % 7 == 0 else None)


def execute_pair(case, ctx):
    base = baseline()
    ea, eb = EDITS[case['a']], EDITS[case['b']]
    box = []

    def work():
        ra = run_catch(lambda: ea({}))
        rb = run_catch(lambda: eb({}))
        box.append((ra, rb, FST.get_options()))

    t = threading.Thread(target=work)
    t.start()
    t.join()
    ra, rb, opts = box[0]
    box2 = []
    t = threading.Thread(target=lambda: box2.append(run_catch(lambda: eb({}))))  # B in a brand new thread after A ran elsewhere
    t.start()
    t.join()
    ctx.count('pairs')

    for name, got, want in ((f'{ea.__name__} (first)', ra, base[case['a']]), (f'{eb.__name__} after {ea.__name__} (same thread)', rb, base[case['b']]),
                            (f'{eb.__name__} in a new thread after {ea.__name__} ran', box2[0], base[case['b']])):
        if got != want:
            raise Violation('C20.call_leak', f'{name} with default options gives {got!r}, alone it gives {want!r}', f'call_leak:{eb.__name__ if got is not ra else ea.__name__}')

    if not same_opts(opts, library_defaults()):
        raise Violation('C20.store', f'after {ea.__name__} and {eb.__name__} with default options get_options() is {opts}', 'store:pair')

    if case['a'] != case['b']:
        ctx.mark_nontrivial(('pair', case['a'], case['b']), {'first': ea.__name__, 'then': eb.__name__, 'result': str(rb)[:120]} if (case['a'] * 31 + case['b']) % 97 == 0 else None)


def execute(case, ctx):
    ctx.count(f'kind:{case["kind"]}')

    if case['kind'] == 'pair':
        return execute_pair(case, ctx)

    if case['kind'] == 'queries':
        return execute_queries(case, ctx)

    if case['kind'] == 'algebra':
        execute_algebra(case, ctx)
    else:
        execute_threads(case, ctx)
