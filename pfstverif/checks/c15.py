"""C15 - walking stays sound while the tree is being modified."""

from __future__ import annotations

import ast
import itertools

from hypothesis import strategies as st

from .. import gen
from ..editmachine import FST
from ..runner import Skip, Violation, fst_site
from . import c01

ID = 'C15'
LEVEL = 'exploration'
TECHNIQUE = 'bounded exhaustive enumeration of single-action schedules (plus sampled pairs and Hypothesis-drawn longer schedules) over walk()/search()/sub() with a per-yield monitor'
RULE = ('Templates: 33 bounded programs (<= 40 nodes: nested lists, calls with keywords, dicts, nested blocks with else / try / with / match, defs with '
        'decorators and defaults, comprehensions) plus small real windows. A schedule is a list of (yield index, action); actions: remove / replace '
        '(by leaf, by sub-tree with children) the yielded node, its parent, its grand-parent, its previous or next sibling; insert before / after; '
        'send(False); send(True); nothing. All single-action schedules are enumerated for every template and every setting of on x back x '
        'recurse x scope x all (both tiers: exhaustive), longer schedules (2-6 actions, yield indices folded onto the unmodified yield count) are drawn by Hypothesis on templates and real windows; the '
        'same driver runs search() and sub() with a mutating callback. Monitor on every yield: the generator does not raise; the yielded '
        'node is alive and its root is the walked root; no node is yielded twice on entry (on=both: at most one enter and one leave); total '
        'yields <= 2 x (initial + inserted nodes) + 4; original nodes are yielded in their original relative order; after replacing the current '
        'node (single action, on=enter) the next yield is the first child of the replacement that passes the filter; after removing it the next '
        'yield is the first still-alive node that followed it; after send(False) no descendant is yielded; nodes removed or replaced before '
        'being reached are not yielded; the final tree satisfies the C01 invariant. search() is also checked against its documented definition over walk() (reference '
        'written in the harness: walk + class match, consumer send() forwarded, send(False) after a match when nested=False and nothing was sent): every '
        'template x 10 class patterns x nested x on x back x {no send, every single send(True / False) at each of the first 14 yields} must yield the same '
        '(node, leaving) sequence. Mutations that legitimately raise (norm=True refusals, '
        'ordering rules) are skipped and counted. Non-trivial = the action changed the tree while the walk was in progress and at least one '
        'more node was yielded afterwards; distinct by (template, settings, schedule).')
ASSUMPTIONS = [
    'mutations are made with norm=True so that intermediate trees stay valid; cut() is not used (documented as unsupported during a walk)',
    'exhaustive: true is claimed only for single-action schedules on the listed templates and settings',
    "a repeated yield on *leave* (a parent collapsed by norm, e.g. 'a and b' -> 'b', re-yields its FST) is counted, not flagged: the property speaks of entry",
]

TEMPLATES = (
    '[pre, [a, [b], c], post]',
    'f(a, *b, k=v, **kw)',
    '{k1: v1, **u, k2: [x, y]}',
    'x = [1, (2, 3), {4: 5}]',
    'if a:\n    b\n    c\nelse:\n    d',
    'if a:\n    b\nelif c:\n    d\nelse:\n    e',
    'try:\n    a\nexcept E as e:\n    b\nelse:\n    c\nfinally:\n    d',
    'with a as b, c:\n    d\n    e',
    'match q:\n    case [x, y]:\n        a\n    case {1: z}:\n        b\n    case _:\n        c',
    '@d1\n@d2(x)\ndef f(a, b=1, *c, d=2, **e):\n    return a + b',
    'class C(B, m=M):\n    x = 1\n    def g(self): pass',
    'r = [i * j for i in a if i for j in b if j]',
    'for i in x:\n    if i:\n        break\n    y\nelse:\n    z',
    'while a:\n    b\n    continue',
    'a = b = c\nd += e\ndel f, g',
    'import m, n as o\nfrom p import q, r as s\nglobal t',
    'x = a if b else c\ny = lambda p, q=1: p + q\nz = a < b < c',
    'print(a, b)\nprint(c)\nprint(d, e, f)',
    'def f():\n    x = 1\n    def g():\n        return x\n    return g',
    'a and b or c and not d',
    "s = f'{a}{b!r:>{w}}'\nt = 'x' 'y'",
    'x = (yield a)\nawait b\ny = [*c, *d]',
    'assert a, b\nraise E from c\nreturn_ = (d,)',
    'a[b:c, d] = e.f.g(h)[i]',
    'type T[U] = list[U]\ndef f[V](): pass',
    'if a: b; c\nd; e',
    'def f(p):\n    r = [i for i in [j for j in p] if i]\n    return r',
    'def f(p):\n    r = [i for i in (lambda q=p: q) if i]\n    return r',
    'class C:\n    x = {k: v for k, v in d if k}\n    y = (lambda a=x: a)',
    'def f():\n    g = (i for i in (j for j in z))\n    return g, [w := u for u in v]',
    # list fields whose FIRST element is None (Dict.keys of a leading `**`, kw_defaults of a keyword-only parameter without default)
    '[pre, {**u, k1: v1, k2: [x, y]}, post]',
    'def f(*, a, b=d1, c=[d2]):\n    return a\ng = lambda *, p, q=d3: q',
    'r = {**u, **w, k: v}\ns = f(*a, b, **c)',
)

ON = ('enter', 'leave', 'both')
ACTIONS = ('nothing', 'remove_self', 'replace_self_leaf', 'replace_self_tree', 'remove_parent', 'replace_parent', 'remove_grand', 'remove_prev', 'replace_prev',
           'remove_next', 'replace_next', 'insert_before', 'insert_after', 'send_false', 'send_true', 'replace_self_comp', 'replace_self_lambda')


def settings_list():
    out = []

    for on, back, recurse, scope, all_ in itertools.product(ON, (False, True), (True, False), (False, True), (False, True)):
        if scope and on != 'enter':
            continue  # documented: scope walking only for on='enter'

        out.append({'on': on, 'back': back, 'recurse': recurse, 'scope': scope, 'all': all_})

    return out


SETTINGS = settings_list()


def params(tier):
    if tier == 'quick':
        return {'examples': 1500, 'wall': 130, 'case_timeout': 30, 'slice': 1}

    return {'examples': 30000, 'wall': 600, 'case_timeout': 30, 'slice': 1}


def exhaustive(tier):
    return True


def floors(tier):
    return {'distinct_nontrivial': 3000 if tier == 'quick' else 60000}


def enumerate_cases(tier, shard, nshards, seed):
    sl = params(tier)['slice']
    k = 0

    for ti in range(len(TEMPLATES)):
        for si in range(len(SETTINGS)):
            k += 1

            if k % nshards != shard:
                continue

            yield {'template': ti, 'setting': si, 'enumerate_single': True, 'slice': sl, 'seed': seed}

    # search() against its definition over walk(): every template x pattern x nested x on x back, all single-send schedules (one case each)
    for ti in range(len(TEMPLATES)):
        for pi in range(len(SEARCH_PATS)):
            for nested, on, back in itertools.product((True, False), ON, (False, True)):
                k += 1

                if k % nshards == shard:
                    yield {'search_model': True, 'template': ti, 'pat': pi, 'nested': nested, 'on': on, 'back': back}


def strategy(tier):
    @st.composite
    def strat(draw):
        kind = draw(st.sampled_from(['walk', 'walk', 'walk', 'search', 'sub']))
        case = {'kind': kind, 'setting': draw(st.integers(0, len(SETTINGS) - 1)),
                'schedule': draw(st.lists(st.tuples(st.integers(0, 40), st.integers(0, len(ACTIONS) - 1)), min_size=2, max_size=6))}

        if draw(st.integers(0, 3)):
            case['template'] = draw(st.integers(0, len(TEMPLATES) - 1))
        else:
            case['src'] = draw(gen.real_window(12))

        return case

    return strat()


# ----------------------------------------------------------------------------------------------------------------------


def leaf_for(a):
    if isinstance(a, ast.stmt):
        return 'new_stmt'
    if isinstance(a, ast.expr):
        ctx = getattr(a, 'ctx', None)

        return 'new_name' if isinstance(ctx, (ast.Store, ast.Del)) or not isinstance(a, ast.expr) else 'new_name'
    if isinstance(a, ast.pattern):
        return 'new_pat'
    if isinstance(a, ast.keyword):
        return 'nk=nv'
    if isinstance(a, ast.arg):
        return 'narg'
    if isinstance(a, ast.alias):
        return 'nalias'
    if isinstance(a, ast.withitem):
        return 'nw as nv'
    if isinstance(a, ast.ExceptHandler):
        return 'except NE: pass'
    if isinstance(a, ast.match_case):
        return 'case 99: pass'
    if isinstance(a, ast.comprehension):
        return 'for nn in mm'

    return None


def tree_for(a):
    if isinstance(a, ast.stmt):
        return 'if nt1:\n    nt2'
    if isinstance(a, ast.expr):
        ctx = getattr(a, 'ctx', None)

        return '[nt1, nt2]' if not isinstance(ctx, (ast.Store, ast.Del)) else '(nt1, nt2)'
    if isinstance(a, ast.pattern):
        return '[nt1, nt2]'
    if isinstance(a, ast.keyword):
        return 'nk=[nt1, nt2]'
    if isinstance(a, ast.ExceptHandler):
        return 'except NE:\n    nt1\n    nt2'
    if isinstance(a, ast.match_case):
        return 'case [nt1]:\n    nt2'

    return leaf_for(a)


class Refused(Exception):
    pass


def do_action(g, action, gen_, inserted):
    """Perform the action relative to yielded node g. Returns a dict describing what happened, or raises Refused."""

    info = {'action': action, 'changed': False}

    if action == 'nothing':
        return info

    if action == 'send_false':
        gen_.send(False)

        return info

    if action == 'send_true':
        gen_.send(True)

        return info

    target = g

    if action in ('remove_parent', 'replace_parent'):
        target = g.parent
    elif action == 'remove_grand':
        target = g.parent.parent if g.parent else None
    elif action in ('remove_prev', 'replace_prev'):
        target = g.prev()
    elif action in ('remove_next', 'replace_next'):
        target = g.next()

    if target is None or target.parent is None:
        raise Refused('no_target')

    a = target.a

    try:
        if action.startswith('remove'):
            target.remove(norm=True)
        elif action in ('replace_self_leaf', 'replace_parent', 'replace_prev', 'replace_next'):
            code = leaf_for(a)

            if code is None:
                raise Refused('no_code')

            r = target.replace(code, norm=True)
            info['replacement'] = r
        elif action in ('replace_self_comp', 'replace_self_lambda'):
            if not isinstance(a, ast.expr) or isinstance(getattr(a, 'ctx', None), (ast.Store, ast.Del)):
                raise Refused('no_code')

            r = target.replace('[cq for cq in cw if cq]' if action == 'replace_self_comp' else '(lambda lp=ld: lp)', norm=True)
            info['replacement'] = r
        elif action == 'replace_self_tree':
            code = tree_for(a)

            if code is None:
                raise Refused('no_code')

            r = target.replace(code, norm=True)
            info['replacement'] = r
        elif action in ('insert_before', 'insert_after'):
            pf = g.pfield

            if pf is None or pf.idx is None:
                raise Refused('not_in_list')

            code = leaf_for(a)

            if code is None:
                raise Refused('no_code')

            idx = pf.idx + (action == 'insert_after')
            g.parent.insert(code, idx, pf.name, norm=True)
        else:
            raise Refused('unknown')
    except Refused:
        raise
    except Exception as exc:
        raise Refused(f'{type(exc).__name__}@{fst_site(exc)}') from None

    info['changed'] = True
    info['target_is_self'] = target is g

    return info


def descendants_ids(a):
    return {id(n) for n in ast.walk(a)}


def run_walk(root, setting, schedule, ctx, kind, desc):
    """Drive walk() with the schedule under the monitor. schedule: {yield index: action}."""

    on = setting['on']
    kw = {'on': on, 'back': setting['back'], 'recurse': setting['recurse'], 'scope': setting['scope']}
    all_ = setting['all']
    site = f'{kind}:{on}:{"back" if setting["back"] else "fwd"}'

    # the unmodified order for these settings (fresh tree, same source)
    ref_root = FST(root.src, 'exec')
    order0 = [(id(x.a) if on != 'both' else (id(x[0].a), x[1])) for x in ref_root.walk(all_, **kw)]
    # map ref ids to live ids by parallel DFS
    ref_nodes = [ref_root.a] + [n for n in ast.walk(ref_root.a)][1:]
    live_nodes = [root.a] + [n for n in ast.walk(root.a)][1:]

    if len(ref_nodes) != len(live_nodes):
        raise Skip('parallel_trees_differ')

    r2l = {id(r): id(l) for r, l in zip(ref_nodes, live_nodes)}
    order_live = [(r2l[x] if on != 'both' else (r2l[x[0]], x[1])) for x in order0]
    pos = {x: i for i, x in enumerate(order_live)}
    n0 = len(live_nodes)

    gen_ = root.walk(all_, **kw)
    seen_enter = set()
    seen_enter_a = set()
    seen_leave = set()
    keep = [ref_root, ref_nodes, live_nodes]  # hold every object whose id() is used as a key
    yields = 0
    last_orig_pos = -1
    inserted = [0]
    limit = 2 * n0 + 4
    changed_at = None
    yields_after_change = 0
    removed_ids = set()      # ids of AST nodes removed/replaced before being reached
    skip_desc = set()        # ids whose descendants must not be yielded (send(False))
    expect_next = None       # ('first_child_of', replacement FST) or ('alive_after', index in order_live)
    nactions = 0
    got_seq = []
    tail_from = None

    try:
        for item in gen_:
            g, leaving = (item, on == 'leave') if on != 'both' else item
            yields += 1

            if yields > limit + 2 * inserted[0] * 3:
                raise Violation('C15.termination', f'{desc}: walk yielded {yields} times for a tree of {n0} nodes (+{inserted[0]} inserted)', f'termination:{site}')

            a = g.a
            got_seq.append(g)

            if a is None:
                raise Violation('C15.dead_node', f'{desc}: walk yielded a dead node at yield {yields - 1}', f'dead:{site}')

            if g.root is not root:
                raise Violation('C15.foreign_node', f'{desc}: walk yielded {g!r} whose root is not the walked root (yield {yields - 1})', f'foreign:{site}')

            key = id(a)
            gkey = id(g)
            keep.append(a)
            keep.append(g)

            if not leaving:
                if key in seen_enter_a:
                    raise Violation('C15.twice', f'{desc}: {g!r} yielded twice on entry (yield {yields - 1})', f'twice:{site}')

                seen_enter.add(gkey)
                seen_enter_a.add(key)
            else:
                if key in seen_leave:
                    ctx.count('observed:leave_yield_repeated')  # the property only speaks of entry; a collapsed parent (norm) legitimately re-yields its FST on leave

                seen_leave.add(key)

            if key in removed_ids:
                raise Violation('C15.removed_node', f'{desc}: {g!r} was removed / replaced before being reached but is yielded (yield {yields - 1})', f'removed:{site}')

            if not leaving and any(key in d for d in skip_desc):
                raise Violation('C15.send_false', f'{desc}: {g!r} is a descendant of a node for which send(False) was given', f'send_false:{site}')

            okey = key if on != 'both' else (key, leaving)

            if okey in pos:
                if nactions <= 1 and pos[okey] < last_orig_pos and on == 'enter':
                    raise Violation('C15.order', f'{desc}: original node {g!r} yielded out of its original relative order', f'order:{site}')

                last_orig_pos = max(last_orig_pos, pos[okey])

            if expect_next is not None and not leaving and on == 'enter':
                kind_, val = expect_next
                expect_next = None

                if kind_ == 'first_child_of':
                    if val.a is not None:
                        kids = [c for c in val.walk(all_, recurse=False, self_=False, back=setting['back'])]

                        if kids and setting['recurse'] and g is not kids[0]:
                            raise Violation('C15.after_replace', f'{desc}: after replacing the current node the next yield is {g!r}, expected the first child {kids[0]!r} of the replacement',
                                            f'after_replace:{site}')
                elif kind_ == 'is':
                    if g is not val:
                        raise Violation('C15.send_true', f'{desc}: after send(True) the next yield is {g!r}, expected the first child {val!r}', f'send_true:{site}')
                elif kind_ == 'alive_after':
                    want = None

                    for x in order_live[val + 1:]:
                        n = next((l for l in live_nodes if id(l) == x), None)

                        if n is not None and getattr(n, 'f', None) is not None and n.f.a is n and n.f.root is root:
                            want = n

                            break

                    if want is not None and a is not want and okey in pos:
                        raise Violation('C15.after_remove', f'{desc}: after removing the current node the next yield is {g!r}, expected {want.f!r}', f'after_remove:{site}')

            if changed_at is not None:
                yields_after_change += 1

            idx = yields - 1

            if idx in schedule:
                action = schedule[idx]

                if leaving and action in ('send_true', 'send_false'):
                    ctx.count('action_refused:send_on_leave')  # documented: send(True) on leave walks the children AGAIN

                    continue

                nactions += 1

                # what is about to disappear if a not-yet-reached node is removed / replaced
                victim = None

                if action in ('remove_next', 'replace_next') and not setting['back']:
                    victim = g.next()
                elif action in ('remove_prev', 'replace_prev') and setting['back']:
                    victim = g.prev()

                victim_ids = descendants_ids(victim.a) if victim is not None else set()

                if victim is not None:
                    keep.append(list(ast.walk(victim.a)))

                kids_before = None

                if action == 'send_true' and not leaving and len(schedule) == 1:
                    kids_before = [c for c in g.walk(all_, recurse=False, self_=False, back=setting['back'])]

                try:
                    info = do_action(g, action, gen_, inserted)
                except Refused as r:
                    ctx.count(f'action_refused:{str(r).split("@")[0]}')

                    continue
                except StopIteration:
                    break

                ctx.count(f'action:{action}')

                if info.get('changed'):
                    if changed_at is None:
                        changed_at = idx

                    if action in ('insert_before', 'insert_after', 'replace_self_tree', 'replace_self_leaf', 'replace_parent', 'replace_prev', 'replace_next',
                                  'replace_self_comp', 'replace_self_lambda'):
                        inserted[0] += 8

                    if len(schedule) == 1 and on == 'enter' and action.startswith('replace_self') and info.get('replacement') is not None:
                        tail_from = (info['replacement'], len(got_seq))

                    if victim is not None and on == 'enter':
                        removed_ids |= victim_ids

                    if len(schedule) == 1 and on == 'enter' and okey in pos:
                        if action == 'replace_self_tree' and info.get('replacement') is not None:
                            expect_next = ('first_child_of', info['replacement'])
                        elif action == 'remove_self':
                            expect_next = ('alive_after', pos[okey])

                if kids_before and on == 'enter' and not setting['scope']:
                    expect_next = ('is', kids_before[0])

                if action == 'send_false' and on in ('enter', 'both') and not leaving:
                    d = descendants_ids(a)
                    d.discard(key)
                    skip_desc.add(frozenset(d))

    except Violation:
        raise
    except Exception as exc:
        raise Violation('C15.raise', f'{desc}: iteration raised {exc!r} at yield {yields}', f'raise:{type(exc).__name__}@{fst_site(exc)}:{site}') from None

    try:
        c01.check_invariant(root, None, 'C15.c01')
    except Violation as v:
        raise Violation('C15.c01', f'{desc}: final tree violates C01: {v.msg[:700]}', f'c01:{site}') from None

    # "after replacing the current node its new children are walked next" and the walk goes on as usual: what was yielded after the replacement
    # equals what a fresh walk of the final tree (same settings) yields after the replaced node
    if tail_from is not None and tail_from[0].a is not None:
        repl, k0 = tail_from

        try:
            fresh = list(root.walk(all_, **kw))
        except Exception as exc:
            raise Violation('C15.raise', f'{desc}: fresh walk of the final tree raised {exc!r}', f'raise_fresh:{type(exc).__name__}:{site}') from None

        idx = next((i for i, x in enumerate(fresh) if x is repl), None)

        if idx is not None:
            want = [id(x.a) for x in fresh[idx + 1:]]
            have = [id(x.a) for x in got_seq[k0:]]
            ctx.count('replace_tails_compared')

            if want != have:
                j = next((j for j, (x, y) in enumerate(zip(want, have)) if x != y), min(len(want), len(have)))

                raise Violation('C15.after_replace', f'{desc}: after the replacement the walk yielded {len(have)} more nodes, a fresh walk of the final tree yields {len(want)} after the '
                                f'replaced node; first difference at #{j}: got {got_seq[k0 + j] if j < len(have) else None!r}, fresh {fresh[idx + 1 + j] if j < len(want) else None!r}',
                                f'after_replace_tail:{site}')

    return changed_at is not None and yields_after_change > 0


def run_search_sub(root, setting, schedule, ctx, kind, desc):
    """search() / sub() built on walk(): mutate from the consumer / callback; safety monitor only."""

    site = f'{kind}'
    n0 = sum(1 for _ in ast.walk(root.a))
    count = [0]
    changed = [None]
    kw = {'back': setting['back'], 'recurse': setting['recurse']}

    if kind == 'search':
        try:
            gen_ = root.search(..., nested=True, **kw) if setting['all'] else root.search(ast.Name, **kw)

            for m in gen_:
                g = m.matched
                count[0] += 1

                if count[0] > 6 * n0 + 40:
                    raise Violation('C15.termination', f'{desc}: search yielded {count[0]} matches for a tree of {n0} nodes', f'termination:{site}')

                if g.a is None or g.root is not root:
                    raise Violation('C15.dead_node', f'{desc}: search yielded dead / foreign node', f'dead:{site}')

                idx = count[0] - 1

                if idx in schedule:
                    try:
                        if do_action(g, schedule[idx], gen_, [0]).get('changed') and changed[0] is None:
                            changed[0] = count[0]
                    except Refused as r:
                        ctx.count(f'action_refused:{str(r).split("@")[0]}')
                    except StopIteration:
                        break
        except Violation:
            raise
        except Exception as exc:
            raise Violation('C15.raise', f'{desc}: search raised {exc!r}', f'raise:{type(exc).__name__}@{fst_site(exc)}:{site}') from None
    else:
        from ast import Load

        from fst.match import MName

        def cb(m):
            count[0] += 1
            idx = count[0] - 1

            if count[0] > 6 * n0 + 40:
                raise Violation('C15.termination', f'{desc}: sub callback called {count[0]} times for a tree of {n0} nodes', f'termination:{site}')

            if idx in schedule and schedule[idx] not in ('send_false', 'send_true'):
                try:
                    g = m
                    act = schedule[idx]

                    if act in ('remove_next', 'replace_next', 'remove_prev', 'replace_prev', 'insert_after', 'insert_before'):
                        if do_action(g, act, None, [0]).get('changed') and changed[0] is None:
                            changed[0] = count[0]
                except Refused as r:
                    ctx.count(f'action_refused:{str(r).split("@")[0]}')

            return False

        try:
            root.sub(MName(ctx=Load), 'w(__FST_)', nested=bool(setting['all']), callback=cb, **kw)
        except Violation:
            raise
        except Exception as exc:
            from fst import NodeError

            if isinstance(exc, (NodeError, ValueError, SyntaxError)):
                ctx.count(f'sub_refused:{type(exc).__name__}')
            else:
                raise Violation('C15.raise', f'{desc}: sub raised {exc!r}', f'raise:{type(exc).__name__}@{fst_site(exc)}:{site}') from None

    try:
        c01.check_invariant(root, None, 'C15.c01')
    except Violation as v:
        raise Violation('C15.c01', f'{desc}: final tree violates C01: {v.msg[:700]}', f'c01:{site}') from None

    return changed[0] is not None and count[0] > changed[0]


SEARCH_PATS = (ast.Name, ast.Call, ast.BinOp, ast.Attribute, ast.Tuple, ast.If, ast.FunctionDef, ast.ListComp, ast.arguments, ast.Constant)


def run_search_model(case, ctx):
    """search(pat, nested, on=...) is documented as walk() + match() with the consumer's send() forwarded and, if the consumer sent nothing and
    nested=False, a send(False) after a match. The reference below is that definition written over the public walk(); both run on fresh trees
    of the same source with the same send schedule (no sends, and every single send of True / False at every yield), and must yield the same
    (node, leaving) sequence."""

    src = TEMPLATES[case['template']]
    cls = SEARCH_PATS[case['pat']]
    nested, on, back = case['nested'], case['on'], case['back']

    def key(f, leaving):
        return (f.a.__class__.__name__, tuple(f.loc) if f.loc else None, leaving)

    def actual(sends):
        root = FST(src, 'exec')
        gen_ = root.search(cls, nested, on=on, back=back)
        out = []

        for k, item in enumerate(gen_):
            m, leaving = item if on == 'both' else (item, None)
            out.append(key(m.matched, leaving))

            if len(out) > 400:
                raise Violation('C15.termination', f'search over {src!r} does not end', 'termination:search_model')

            if k in sends:
                gen_.send(sends[k])

        return out

    def reference(sends):
        root = FST(src, 'exec')
        gen_ = root.walk(True, on, back=back)
        out = []
        k = 0

        for item in gen_:
            f, leaving = item if on == 'both' else (item, None)

            if f.a.__class__ is not cls:
                continue

            out.append(key(f, leaving))

            if len(out) > 400:
                raise Skip('reference_walk_does_not_end')

            if k in sends:
                gen_.send(sends[k])
            elif not nested:
                gen_.send(False)

            k += 1

        return out

    base = reference({})
    schedules = [{}] + [{i: v} for i in range(min(len(base), 14)) for v in (True, False)]

    for sends in schedules:
        desc = f'search({cls.__name__}, nested={nested}, on={on!r}, back={back}) over {src!r} with sends {sends}'

        try:
            want = reference(sends)
        except Skip:
            raise
        except Exception as exc:
            ctx.count(f'search_model_reference_raised:{type(exc).__name__}')

            continue

        try:
            got = actual(sends)
        except Violation:
            raise
        except Exception as exc:
            raise Violation('C15.raise', f'{desc}: raised {exc!r}', f'raise:{type(exc).__name__}@{fst_site(exc)}:search_model') from None

        ctx.count('search_model_schedules')

        if got != want:
            i = next((i for i in range(min(len(got), len(want))) if got[i] != want[i]), min(len(got), len(want)))

            raise Violation('C15.search_model', f'{desc}: yields differ from walk()+match() at #{i}: search {got[i:i + 3]} reference {want[i:i + 3]}', f'search_model:{on}:nested={nested}')

        if sends and len(want) > 1 and want != base:
            ctx.mark_nontrivial((case['template'], case['pat'], nested, on, back, tuple(sends.items())),
                                {'kind': 'search_model', 'desc': desc, 'yields': len(want)} if case['template'] % 9 == 0 and case['pat'] == 0 else None)


def on_timeout(case, ctx):
    raise Violation('C15.termination', f'case did not terminate within the case time limit: {str(case)[:300]}', 'timeout')


def execute(case, ctx):
    if case.get('search_model'):
        return run_search_model(case, ctx)

    src = TEMPLATES[case['template']] if 'template' in case else case['src']
    setting = SETTINGS[case['setting']]

    if case.get('enumerate_single'):
        # all single-action schedules for this template x setting
        base = FST(src, 'exec')
        n_yields = sum(1 for _ in base.walk(setting['all'], on=setting['on'], back=setting['back'], recurse=setting['recurse'], scope=setting['scope']))
        k = 0

        for i in range(n_yields):
            for ai, action in enumerate(ACTIONS):
                k += 1

                if case['slice'] > 1 and (k * 2654435761 + case['seed'] * 40503 + case['template']) % case['slice']:
                    continue

                root = FST(src, 'exec')
                desc = f'walk({setting}) on template #{case["template"]} {src[:50]!r} with schedule [(yield {i}, {action})]'
                ctx.count('schedules')

                if run_walk(root, setting, {i: action}, ctx, 'walk', desc):
                    ctx.mark_nontrivial((case['template'], case['setting'], i, action), {'template': src, 'settings': setting, 'schedule': [[i, action]], 'final_source': root.src}
                                        if (k % 977) == 0 else None)

        return

    try:
        root = FST(src, 'exec')
    except Exception as exc:
        raise Skip(f'build_failed:{type(exc).__name__}') from None

    if c01.excluded(src):
        raise Skip('domain_excluded')

    kind = case.get('kind', 'walk')

    try:
        if kind == 'walk':
            ny = sum(1 for _ in FST(src, 'exec').walk(setting['all'], on=setting['on'], back=setting['back'], recurse=setting['recurse'], scope=setting['scope']))
        else:
            ny = (sum(1 for _ in FST(src, 'exec').search(..., back=setting['back'], recurse=setting['recurse'])) if kind == 'search' and setting['all'] else
                  sum(1 for n in ast.walk(ast.parse(src)) if isinstance(n, ast.Name) and (kind == 'search' or isinstance(n.ctx, ast.Load))))
    except Exception as exc:
        raise Violation('C15.raise', f'unmodified walk of {src[:60]!r} raised {exc!r}', f'raise_plain:{type(exc).__name__}@{fst_site(exc)}') from None

    if not ny:
        raise Skip('nothing_to_yield')

    schedule = {i % ny: ACTIONS[a] for i, a in case['schedule']}  # indices are drawn freely and folded onto the unmodified number of yields
    desc = f'{kind}({setting}) on {src[:60]!r} with schedule {sorted(schedule.items())}'
    ctx.count('schedules')
    ctx.count(f'kind:{kind}')

    if kind == 'walk':
        nt = run_walk(root, setting, schedule, ctx, kind, desc)
    else:
        nt = run_search_sub(root, setting, schedule, ctx, kind, desc)

    if nt:
        ctx.mark_nontrivial(case, {'source': src[:200], 'settings': setting, 'schedule': sorted(schedule.items()), 'final_source': root.src[:200]} if len(schedule) % 3 == 0 else None)
