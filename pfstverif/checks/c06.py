"""C06 - every reported location denotes exactly the text of its node."""

from __future__ import annotations

import ast
import io
import keyword
import tokenize

from hypothesis import strategies as st

from .. import gen
from ..editmachine import FST
from ..oracle import K_pos, b2c
from ..runner import Skip, Violation

ID = 'C06'
LEVEL = 'exploration'
TECHNIQUE = 'enumeration of all nodes of generated / real programs; oracle: tokenize + CPython positions, brute-force scan for location search'
RULE = ('Programs: seeded slice of real files (windows), synthetic templates, 20 delimiter-laden programs (the delimiter a computed location searches for also occurs inside the neighbouring children, strings and comments), maintainers\' snippets and Hypothesis-drawn '
        'layout-mutated windows, each also in a multi-byte variant (identifiers renamed to non-ASCII, multi-byte comments and '
        'strings). For every node: loc == CPython position converted bytes->chars by the reference converter, FST lineno.. == '
        'AST attributes, get_src(*loc) == byte-sliced segment; operator loc covers exactly the operator token(s) found as the '
        'first non-`)` token after the left operand; comprehension / withitem / match_case locs are token-aligned, bracket-balanced, '
        'start with for/async / first item token / `case`, contain all children and nothing but their own closing parentheses after '
        'the last child; arguments loc is exactly the text between the delimiters; decorated bloc starts at the first `@`; '
        'pars() == n-th balanced hugging parentheses from the token stream with the documented solo call-arg / class-base / '
        'class-pattern exclusion; children lie inside parents and siblings do not overlap in walk order; find_loc / '
        'find_contains_loc / find_in_loc agree with a brute-force scan (validity predicate where ties are possible) on node '
        'extents, extents +-1, random and zero-width rectangles; bistr.c2b/b2c == len(s[:i].encode()) on Hypothesis text. '
        'Non-trivial = node whose location is computed (not copied from CPython), or with a multi-byte character earlier on its '
        'first/last line, or pars().n >= 1; distinct by (source hash, node index).')
ASSUMPTIONS = [
    'CPython positions and tokenize are the reference; nodes inside f-strings are checked for loc/position only (token-based '
    'clauses need ordinary tokens)',
    'parenthesis ownership for `with (a): pass` is ambiguous in the grammar and not asserted',
]

SOFT = {'match', 'case', 'type', '_'}


def params(tier):
    if tier == 'quick':
        return {'examples': 500, 'wall': 80, 'case_timeout': 60, 'files': 150}

    return {'examples': 5000, 'wall': 600, 'case_timeout': 120, 'files': 300}


def floors(tier):
    return {'distinct_nontrivial': 5000 if tier == 'quick' else 100000}


def multibyte_variant(src: str, sel: int) -> str | None:
    """Rename identifiers to non-ASCII names consistently and add a multi-byte comment; None if CPython rejects."""

    try:
        toks = list(tokenize.generate_tokens(io.StringIO(src).readline))
    except (tokenize.TokenError, IndentationError, SyntaxError):
        return None

    suffix = ('é', '日本', 'ñö', '𝐱')[sel % 4]
    lines = src.split('\n')
    edits = []
    fdepth = 0

    for t in toks:
        if t.type == tokenize.FSTRING_START:
            fdepth += 1
        elif t.type == tokenize.FSTRING_END:
            fdepth -= 1

        if t.type == tokenize.NAME and not keyword.iskeyword(t.string) and t.string not in SOFT and not (t.string.startswith('__') and t.string.endswith('__')):
            edits.append((t.end[0] - 1, t.end[1], suffix))

    for ln, col, s in sorted(edits, reverse=True):
        lines[ln] = lines[ln][:col] + s + lines[ln][col:]

    new = '\n'.join(lines)

    try:
        ast.parse(new)
    except (SyntaxError, ValueError, RecursionError):
        return None

    return new


# G-delim: computed locations are found by searching for a delimiter after / before children; these programs put the same delimiter
# characters INSIDE the neighbouring children (parenthesised bounds of type parameters, parenthesised defaults, decorators, strings and
# comments that contain brackets), at every position of the child list, so that a search that starts from the wrong child lands on them
DELIM_PROGRAMS = (
    'def f[T, U: (int, str)](a, b=1): pass',
    'def f[T: (int, str), U: (bytes, bytearray), *V, **W](a, /, b=(1, 2), *c, d=(3), **e) -> (r): pass',
    'def f[T: (int)](a): pass\ndef g[T, U, V: (x, y)](): pass\ndef h[T: (x, y), U, V](*, k): pass',
    'async def f[T, U: (list[(int)], (str))](): pass',
    'class C[T, U: (int, str)](B, (D), m=(M)): pass',
    'class C[T: (int, str)]: pass\nclass D[T, U: (A)](): pass\nclass E[T: (A), U]((B)): pass',
    'type A[T, U: (int, str)] = (dict[T, (U)])\ntype B[T: (x)] = (T)',
    'def f[T: "("](a="(", b=")") -> ")": pass\nclass C[T: "]("](B, m="(("): pass',
    'def f[T,  # [ (\n      U: (int,  # ) ]\n          str)](  # (\n    a,  # )\n): pass',
    '@(d)\n@d(x)(y)\n@(a.b)(c)[0]\ndef f(a=(1), *b, c=(2)): pass\n@(e)\nclass G((H)): pass',
    'r = lambda a=(1), *b, c=((2)): (a)\nr = lambda: (0)\nr = lambda *, k=(1): k',
    'f((a), (b))((c))\nf(x)(y)[z](w)\nf((a for a in b))\nf(a for a in (b))\n(f)((a))\nf[(a)](b)\nf(")")("(")\nf(  # (\n)',
    'a[(b)][(c)]\n(a[b])[c]\na[b[c]][d]\na[(b):(c), (d)]\na["]"][")"]\na[[b]][[c][0]]',
    'with (a) as b, (c): pass\nwith ((a) as b, (c) as (d)): pass\nwith (a), (b): pass\nwith ((a), (b)): pass\nwith (a)(b) as c: pass\nwith f(")") as b, g("("): pass',
    'from a import (b as c, d)\nfrom e import (f)\nfrom g import (h,  # )\n    i)',
    'match (x):\n    case C((a), b=(c)): pass\n    case a.b((c)): pass\n    case (C()): pass\n    case (C(a)) | (D(b)): pass\n    case {"k": (a), **rest}: pass\n    case {"(": C(), **r}: pass\n    case ((a)) if (g): (y)',
    'r = [(a) for (a) in (b) if (c) for d in (e)]\nr = {(k): (v) for (k), (v) in (d) if (k)}\nr = ((a) for a in (b))\nr = [a for a in b if ")"]',
    'r = {(a): (b), **(c)}\nr = {**(a), (b): (c)}\nr = {"}": "{", **d}',
    'r = (a) if (b) else (c)\nr = (a) < (b) <= (c)\nr = (a) and (b) or (c)\nr = -(a) ** (b)\nr = (yield)\nr = ((yield (a)))',
    'try: pass\nexcept (E) as e: pass\nexcept ((A), (B)): pass\ntry: pass\nexcept* (E): pass',
)


def enumerate_cases(tier, shard, nshards, seed):
    files = gen.real_files()
    n = params(tier)['files']

    for k in range(n):
        i = (seed * 7919 + shard * 104729 + k * 15485863) % len(files)
        wins = gen.file_windows(files[i], 3, 80)

        if wins:
            w = wins[(seed + k) % len(wins)]

            yield {'src': w, 'rsel': seed * 31 + k}
            yield {'src': w, 'rsel': seed * 31 + k, 'mb': k}

    for j, src in enumerate(gen.SYN_PROGRAMS):
        if j % nshards == shard:
            yield {'src': src, 'rsel': seed + j}
            yield {'src': src, 'rsel': seed + j, 'mb': j}

    for j, src in enumerate(DELIM_PROGRAMS):
        if j % nshards == shard:
            yield {'src': src, 'rsel': seed + j}
            yield {'src': src, 'rsel': seed + j, 'mb': j}

    mods = gen.snippet_modules()

    for j in range(shard, len(mods), nshards * (3 if tier == 'quick' else 1)):
        yield {'src': mods[j], 'rsel': seed + j}

        if j % 2:
            yield {'src': mods[j], 'rsel': seed + j, 'mb': j}


def strategy(tier):
    @st.composite
    def strat(draw):
        if draw(st.integers(0, 9)) == 0:
            return {'text': draw(st.text(max_size=40)), 'rsel': 0}

        case = {'src': draw(gen.program(60)), 'rsel': draw(st.integers(0, 1 << 20))}

        if draw(st.booleans()):
            case['mb'] = draw(st.integers(0, 3))

        return case

    return strat()


# ----------------------------------------------------------------------------------------------------------------------

OPSTR = {ast.Add: '+', ast.Sub: '-', ast.Mult: '*', ast.MatMult: '@', ast.Div: '/', ast.Mod: '%', ast.Pow: '**', ast.LShift: '<<',
         ast.RShift: '>>', ast.BitOr: '|', ast.BitXor: '^', ast.BitAnd: '&', ast.FloorDiv: '//', ast.Invert: '~', ast.Not: 'not',
         ast.UAdd: '+', ast.USub: '-', ast.Eq: '==', ast.NotEq: '!=', ast.Lt: '<', ast.LtE: '<=', ast.Gt: '>', ast.GtE: '>=', ast.Is: 'is',
         ast.IsNot: 'is not', ast.In: 'in', ast.NotIn: 'not in'}


class Src:
    def __init__(self, src):
        self.src = src
        self.lines = src.split('\n')
        self.blines = [l.encode() for l in self.lines]
        self.toks = K_pos(src)  # significant tokens incl. comments, char positions
        self.code = [t for t in self.toks if t[0] != tokenize.COMMENT]
        self.starts = {t[2]: i for i, t in enumerate(self.code)}
        self.ends = {t[3]: i for i, t in enumerate(self.code)}
        # f-string interior rows/cols: tokens between FSTRING_START and FSTRING_END
        self.fspans = []
        depth = 0
        start = None

        for t in self.code:
            if t[0] == tokenize.FSTRING_START:
                if depth == 0:
                    start = t[2]

                depth += 1
            elif t[0] == tokenize.FSTRING_END:
                depth -= 1

                if depth == 0:
                    self.fspans.append((start, t[3]))

    def in_fstring(self, pos):
        return any(s < pos < e for s, e in self.fspans)

    def cpos(self, lineno, col_b):
        return (lineno - 1, b2c(self.lines[lineno - 1], col_b))

    def extent(self, a):
        return self.cpos(a.lineno, a.col_offset), self.cpos(a.end_lineno, a.end_col_offset)

    def segment(self, a):
        if a.lineno == a.end_lineno:
            return self.blines[a.lineno - 1][a.col_offset:a.end_col_offset].decode()

        parts = [self.blines[a.lineno - 1][a.col_offset:]] + self.blines[a.lineno:a.end_lineno - 1] + [self.blines[a.end_lineno - 1][:a.end_col_offset]]

        return b'\n'.join(parts).decode()

    def first_code_at_or_after(self, pos):
        lo, hi = 0, len(self.code)

        while lo < hi:
            mid = (lo + hi) // 2

            if self.code[mid][2] < pos:
                lo = mid + 1
            else:
                hi = mid

        return lo

    def last_code_ending_at_or_before(self, pos):
        i = self.first_code_at_or_after(pos)

        while i > 0 and (i >= len(self.code) or self.code[i][3] > pos):
            i -= 1

        return i if self.code and self.code[i][3] <= pos else -1


def has_pos(a):
    return getattr(a, 'lineno', None) is not None


def subtree_extent(S, a):
    lo = hi = None

    for n in ast.walk(a):
        if has_pos(n):
            s, e = S.extent(n)
            lo = s if lo is None or s < lo else lo
            hi = e if hi is None or e > hi else hi

    return lo, hi


def balanced_text(S, start, end):
    depth = 0

    for t in S.code:
        if t[2] >= start and t[3] <= end and t[0] == tokenize.OP:
            if t[1] in '([{':
                depth += 1
            elif t[1] in ')]}':
                depth -= 1

                if depth < 0:
                    return False

    return depth == 0


def check_program(src, rsel, ctx, tag, force_rects=()):
    try:
        S = Src(src)
    except (tokenize.TokenError, IndentationError, SyntaxError):
        raise Skip('tokenize_failed') from None

    try:
        root = FST(src, 'exec')
    except Exception as exc:
        raise Skip(f'build_failed:{type(exc).__name__}') from None

    def V(clause, msg, a):
        raise Violation(f'C06.{clause}', f'{msg} [{a.__class__.__name__} line {getattr(a, "lineno", "?")}]\n--- src ---\n{src[:1500]}', f'{clause}:{a.__class__.__name__}')

    nodes = [f for f in root.walk(all=True)]
    src_hash = hash(src)
    n_nontrivial = 0
    located = []  # (fst, loc tuple) for nodes with loc

    for k, f in enumerate(nodes):
        a = f.a
        loc = f.loc
        computed = False
        parsn = 0

        if isinstance(a, ast.expr_context) or isinstance(a, ast.boolop):
            if loc is not None:
                V('noloc', f'{a.__class__.__name__} reports a location {loc}', a)

            continue

        if isinstance(a, ast.mod):
            located.append((f, tuple(loc)))

            continue

        if loc is None:
            V('noloc', 'node has no location', a)

        loc = tuple(loc)
        located.append((f, loc))
        ctx.count('nodes')

        if has_pos(a):
            (sl, sc), (el, ec) = S.extent(a)

            if loc != (sl, sc, el, ec):
                V('pos', f'loc {loc} != CPython extent {(sl, sc, el, ec)}', a)

            if (f.lineno, f.col_offset, f.end_lineno, f.end_col_offset) != (a.lineno, a.col_offset, a.end_lineno, a.end_col_offset):
                V('astpos', 'FST lineno..end_col_offset differ from the AST attributes', a)

            if root.get_src(*loc) != S.segment(a):
                V('text', f'get_src(*loc) {root.get_src(*loc)!r} != segment {S.segment(a)!r}', a)

        else:
            computed = True
            # byte-based attributes must agree with char-based loc
            exp = (loc[0] + 1, len(S.lines[loc[0]][:loc[1]].encode()), loc[2] + 1, len(S.lines[loc[2]][:loc[3]].encode()))

            if (f.lineno, f.col_offset, f.end_lineno, f.end_col_offset) != exp:
                V('astpos', f'computed node: byte attributes {(f.lineno, f.col_offset, f.end_lineno, f.end_col_offset)} disagree with char loc {loc} ({exp})', a)

        in_f = S.in_fstring((loc[0], loc[1])) or S.in_fstring((loc[2], loc[3]))

        if in_f:
            ctx.count('nodes_inside_fstring(token clauses skipped)')

        pa = f.parent.a if f.parent else None

        # --- operators
        if isinstance(a, (ast.operator, ast.unaryop, ast.cmpop)) and not in_f:
            if isinstance(pa, ast.UnaryOp):
                after = S.extent(pa)[0]
            elif isinstance(pa, ast.BinOp):
                after = S.extent(pa.left)[1]
            elif isinstance(pa, ast.AugAssign):
                after = S.extent(pa.target)[1]
            elif isinstance(pa, ast.Compare):
                i = pa.ops.index(a)
                after = S.extent(pa.left if i == 0 else pa.comparators[i - 1])[1]
            else:
                after = None  # root operator

            if after is not None:
                i = S.first_code_at_or_after(after)

                while i < len(S.code) and S.code[i][1] == ')':
                    i += 1

                want = OPSTR[a.__class__].split()
                got = [t[1] for t in S.code[i:i + len(want)]]
                t0, t1 = S.code[i], S.code[i + len(want) - 1]
                end = t1[3]

                if isinstance(pa, ast.AugAssign):
                    got = [got[0][:-1]]
                    end = (end[0], end[1] - 1)

                if got != want:
                    V('operator', f'reference scan finds {got} where operator {want} was expected', a)

                if loc != (*t0[2], *end):
                    V('operator', f'operator loc {loc} != token extent {(*t0[2], *end)} ({root.get_src(*loc)!r})', a)

        # --- comprehension / withitem / match_case: token aligned, balanced, contains children, right first/last tokens
        elif isinstance(a, (ast.comprehension, ast.withitem, ast.match_case)) and not in_f:
            lo, hi = subtree_extent(S, a)
            s, e = (loc[0], loc[1]), (loc[2], loc[3])

            if s not in S.starts or e not in S.ends:
                V('computed', f'loc {loc} is not aligned to tokens', a)

            if not (s <= lo and hi <= e):
                V('computed', f'loc {loc} does not contain children extent {lo}..{hi}', a)

            if not balanced_text(S, s, e):
                V('computed', f'loc {loc} text {root.get_src(*loc)!r} is not bracket-balanced', a)

            first = S.code[S.starts[s]][1]
            between_start = [t[1] for t in S.code[S.starts[s]:S.first_code_at_or_after(lo)]]
            tail = [t[1] for t in S.code[S.first_code_at_or_after(hi):S.ends[e] + 1]]

            if isinstance(a, ast.comprehension):
                ok = between_start[:2] == ['async', 'for'] if a.is_async else between_start[:1] == ['for']
                ok = ok and all(x == '(' for x in between_start[2 if a.is_async else 1:])

                if not ok:
                    V('computed', f'comprehension loc starts with {between_start}', a)

                if any(x != ')' for x in tail):
                    V('computed', f'comprehension loc has {tail} after its last child', a)

            elif isinstance(a, ast.withitem):
                if any(x != '(' for x in between_start) or any(x != ')' for x in tail):
                    V('computed', f'withitem loc has {between_start} before / {tail} after its children', a)

            else:
                if first != 'case':
                    V('computed', f'match_case loc starts with {first!r}', a)

                if any(x != ';' for x in tail):
                    V('computed', f'match_case loc has {tail} after its last statement', a)

            nxt = S.ends[e] + 1

            if isinstance(a, (ast.comprehension, ast.withitem)) and nxt < len(S.code) and S.code[nxt][1] == ')' and tail.count(')') < sum(1 for x in between_start if x == '(') + 0:
                pass

        elif isinstance(a, ast.arguments) and not in_f and pa is not None:
            s, e = (loc[0], loc[1]), (loc[2], loc[3])
            i_after = S.first_code_at_or_after(e)
            i_before = S.last_code_ending_at_or_before(s)

            if isinstance(pa, ast.Lambda):
                lam_end = S.code[i_before][3] if i_before >= 0 else None
                open_ok = i_before >= 0 and S.code[i_before][1] == 'lambda' and (lam_end == s or (lam_end[0] == s[0] and lam_end[1] + 1 == s[1]))  # the space after `lambda` is not part of the arguments
                close_ok = i_after < len(S.code) and S.code[i_after][1] == ':' and S.code[i_after][2] == e
            else:
                open_ok = i_before >= 0 and S.code[i_before][1] == '(' and S.code[i_before][3] == s
                close_ok = i_after < len(S.code) and S.code[i_after][1] == ')' and S.code[i_after][2] == e

            if not open_ok or not close_ok:
                V('arguments', f'arguments loc {loc} is not exactly the text between its delimiters ({root.get_src(*loc)!r})', a)

            lo, hi = subtree_extent(S, a)

            if lo is not None and not (s <= lo and hi <= e):
                V('arguments', 'arguments loc does not contain its children', a)

        # --- decorated bloc
        if getattr(a, 'decorator_list', None) and not in_f:
            d0 = min(a.decorator_list, key=lambda d: (d.lineno, d.col_offset))
            i = S.first_code_at_or_after(S.extent(d0)[0]) - 1

            while i >= 0 and S.code[i][1] == '(':
                i -= 1

            bloc = tuple(f.bloc)

            if i < 0 or S.code[i][1] != '@' or bloc[:2] != S.code[i][2]:
                V('bloc', f'decorated bloc {bloc} does not start at the first @', a)

            computed = True

        # --- pars
        if isinstance(a, (ast.expr, ast.pattern)) and has_pos(a) and not in_f and not isinstance(a, (ast.Starred, ast.Slice, ast.MatchStar)) \
                and not isinstance(pa, (ast.JoinedStr, ast.FormattedValue)) and not (isinstance(a, ast.expr) and isinstance(pa, ast.pattern)):  # expressions inside patterns: the parentheses belong to the pattern
            (s, e) = S.extent(a)
            i0 = S.first_code_at_or_after(s)
            i1 = S.last_code_ending_at_or_before(e)
            L = R = 0

            while i0 - 1 - L >= 0 and S.code[i0 - 1 - L][1] == '(':
                L += 1

            while i1 + 1 + R < len(S.code) and S.code[i1 + 1 + R][1] == ')':
                R += 1

            solo = ((isinstance(pa, ast.Call) and a in pa.args and len(pa.args) + len(pa.keywords) == 1) or
                    (isinstance(pa, ast.ClassDef) and a in pa.bases and len(pa.bases) + len(pa.keywords) == 1) or
                    (isinstance(pa, ast.MatchClass) and a in pa.patterns and len(pa.patterns) + len(pa.kwd_patterns) == 1))
            n = min(L - (1 if solo and 0 < L <= R else 0), R)
            is_tuple_elt_unpar = False

            if isinstance(a, ast.GeneratorExp) and solo and S.code[i0][1] == '(' and False:
                pass

            ambiguous = isinstance(pa, ast.withitem) or isinstance(a, ast.Tuple) and S.code[i0][1] != '(' or isinstance(pa, ast.Subscript) and isinstance(a, ast.Tuple)

            try:
                p = f.pars()
                got_n = p.n
            except Exception as exc:
                V('pars', f'pars() raised {exc!r}', a)

            if not ambiguous:
                if got_n != n:
                    V('pars', f'pars().n == {got_n}, token stream says {n} (L={L}, R={R}, solo={solo})', a)

                if n > 0:
                    want = (*S.code[i0 - n][2], *S.code[i1 + n][3])

                    if tuple(p) != want:
                        V('pars', f'pars() location {tuple(p)} != extent of the {n}-th hugging parentheses {want}', a)
                elif tuple(p)[:4] != tuple(f.bloc):
                    V('pars', f'pars() location {tuple(p)} != bloc {tuple(f.bloc)} although n == 0', a)

            parsn = max(n, 0)

        # --- non-triviality
        line0 = S.lines[loc[0]][:loc[1]]
        line1 = S.lines[loc[2]][:loc[3]]
        mb = len(line0.encode()) != len(line0) or len(line1.encode()) != len(line1)

        if computed or mb or parsn >= 1:
            n_nontrivial += 1
            ctx.mark_nontrivial((src_hash, k), {'node': a.__class__.__name__, 'loc': loc, 'text': root.get_src(*loc)[:80], 'computed': computed,
                                                'multibyte_before': mb, 'pars_n': parsn} if n_nontrivial % 50 == 1 else None)

    # --- containment and sibling order (pfst locs only, relation between them)
    for f, loc in located:
        if f.parent is None or isinstance(f.parent.a, (ast.JoinedStr, ast.FormattedValue)):
            continue

        p = f.parent
        ploc = p.bloc if p.bloc is not None else None

        if ploc is not None and not ((ploc[0], ploc[1]) <= (loc[0], loc[1]) and (loc[2], loc[3]) <= (ploc[2], ploc[3])):
            V('containment', f'child loc {loc} not inside parent {p.a.__class__.__name__} bloc {tuple(ploc)}', f.a)

    for f, _ in located:
        prev_end = None
        prev = None

        if isinstance(f.a, ast.JoinedStr):
            continue

        for c in f.walk(all=True, recurse=False, self_=False):
            cl = c.loc

            if cl is None:
                continue

            if cl[:2] == cl[2:] and isinstance(c.a, ast.arguments):
                continue

            if prev_end is not None and (cl[0], cl[1]) < prev_end:
                V('overlap', f'siblings overlap: {prev.a.__class__.__name__} ends {prev_end}, next {c.a.__class__.__name__} starts {(cl[0], cl[1])}', f.a)

            prev_end = (cl[2], cl[3])
            prev = c

    check_find(root, S, located, rsel, ctx, V, force_rects)


def contains(outer, inner):
    return (outer[0], outer[1]) <= (inner[0], inner[1]) and (inner[2], inner[3]) <= (outer[2], outer[3])


def check_find(root, S, located, rsel, ctx, V, force_rects=()):
    if not located:
        return

    # query rectangles: deterministic function of rsel
    rects = []
    x = rsel * 2654435761 % (1 << 32)

    def nxt():
        nonlocal x
        x = (x * 1103515245 + 12345) % (1 << 31)

        return x

    nlines = len(S.lines)

    for k in range(24):
        f, loc = located[nxt() % len(located)]
        kind = k % 6

        if kind == 0:
            r = loc
        elif kind == 1:
            r = (loc[0], max(loc[1] - 1, 0), loc[2], min(loc[3] + 1, len(S.lines[loc[2]])))
        elif kind == 2:
            r = (loc[0], min(loc[1] + 1, len(S.lines[loc[0]])), loc[2], max(loc[3] - 1, 0))
        elif kind == 3:
            r = (loc[0], loc[1], loc[0], loc[1])
        elif kind == 4:
            r = (loc[2], loc[3], loc[2], loc[3])
        else:
            l0 = nxt() % nlines
            l1 = min(nlines - 1, l0 + nxt() % 3)
            c0 = nxt() % (len(S.lines[l0]) + 1)
            c1 = nxt() % (len(S.lines[l1]) + 1)
            r = (l0, c0, l1, c1)

        if (r[0], r[1]) > (r[2], r[3]):
            continue

        if any(s < (r[2], r[3]) and (r[0], r[1]) < e for s, e in S.fspans):
            ctx.count('query_touching_fstring_skipped(CPython debug-constant positions overlap)')

            continue

        if (r[0], r[1]) == (r[2], r[3]) and any((loc[2], loc[3]) == (r[0], r[1]) for _, loc in located):
            ctx.count('zero_width_query_at_node_end_skipped(undocumented tie)')

            continue

        rects.append(r)

    rects.extend(tuple(r) for r in force_rects)
    order = {id(f): i for i, (f, _) in enumerate(located)}
    locs = {id(f): loc for f, loc in located}

    def kids_with_loc(f):
        return [c for c in f.walk(all=True, recurse=False, self_=False) if id(c) in locs]

    for r in rects:
        ctx.count('find_queries')
        exact = [f for f, loc in located if loc == r]
        inside = [f for f, loc in located if contains(r, loc)]

        # find_in_loc: first node in walk order entirely inside r
        want_in = inside[0] if inside else None
        got = root.find_in_loc(*r)

        if got is not want_in:
            # tolerate: decorated nodes where bloc is used instead of loc
            if not (got is not None and want_in is not None and (tuple(got.bloc) != tuple(got.loc) or tuple(want_in.bloc) != tuple(want_in.loc))):
                V('find_in_loc', f'find_in_loc{r} -> {got!r}, brute force -> {want_in!r}', (got or want_in or root).a)

        for allow in (True, False, 'top'):
            got = root.find_contains_loc(*r, allow_exact=allow)

            def ok_container(f):
                loc = locs[id(f)]

                return contains(loc, r) and (allow is not False or loc != r)

            cands = [f for f, _ in located if ok_container(f)]

            if got is None:
                if cands:
                    V('find_contains_loc', f'find_contains_loc{r} allow_exact={allow} -> None, but {cands[-1]!r} contains it', cands[-1].a)

                continue

            if id(got) not in locs or not ok_container(got):
                V('find_contains_loc', f'find_contains_loc{r} allow_exact={allow} -> {got!r} which does not contain the location as required', got.a)

            if allow == 'top' and locs[id(got)] == r:
                if any(locs[id(p)] == r for p in got.parents() if id(p) in locs):
                    V('find_contains_loc', f"find_contains_loc{r} allow_exact='top' -> {got!r} but a parent has the same location", got.a)
            else:
                deeper = [c for c in kids_with_loc(got) if ok_container(c)]

                if deeper and not (allow == 'top' and locs[id(deeper[0])] == r):
                    V('find_contains_loc', f'find_contains_loc{r} allow_exact={allow} -> {got!r} but its child {deeper[0]!r} also contains the location', got.a)

        for top in (False, True):
            got = root.find_loc(*r, exact_top=top)

            if exact:
                if got is None or locs.get(id(got)) != r:
                    V('find_loc', f'find_loc{r} exact_top={top} -> {got!r}, exact matches exist: {exact[:2]}', exact[0].a)

                if top and any(locs[id(p)] == r for p in got.parents() if id(p) in locs):
                    V('find_loc', f'find_loc{r} exact_top=True -> {got!r} is not the highest exact match', got.a)

                if not top and any(locs[id(c)] == r for c in kids_with_loc(got)):
                    V('find_loc', f'find_loc{r} exact_top=False -> {got!r} is not the lowest exact match', got.a)

            elif inside:
                if got is not want_in and not (got is not None and tuple(got.bloc) != tuple(got.loc)):
                    V('find_loc', f'find_loc{r} -> {got!r}, expected find_in_loc result {want_in!r}', (got or want_in).a)

            else:
                conts = [f for f, loc in located if contains(loc, r)]

                if got is None:
                    if conts:
                        V('find_loc', f'find_loc{r} -> None but {conts[-1]!r} contains it', conts[-1].a)
                elif id(got) not in locs or not contains(locs[id(got)], r) or any(contains(locs[id(c)], r) for c in kids_with_loc(got)):
                    V('find_loc', f'find_loc{r} -> {got!r} is not the lowest node containing the location', got.a)


def execute(case, ctx):
    if 'text' in case:
        from fst.astutil import bistr

        s = case['text'].replace('\n', ' ')
        b = bistr(s)
        ctx.count('bistr_cases')

        for i in range(len(s) + 1):
            want = len(s[:i].encode('utf-8', 'surrogatepass')) if any('\ud800' <= ch <= '\udfff' for ch in s) else len(s[:i].encode())

            if b.c2b(i) != want:
                raise Violation('C06.c2b', f'bistr({s!r}).c2b({i}) == {b.c2b(i)} != {want}', 'c2b')

            if b.b2c(want) != i:
                raise Violation('C06.b2c', f'bistr({s!r}).b2c({want}) == {b.b2c(want)} != {i}', 'b2c')

        if len(s.encode()) != len(s):
            ctx.mark_nontrivial(('text', s), None)

        return

    src = case['src']

    if 'mb' in case:
        src = multibyte_variant(src, case['mb'])

        if src is None:
            raise Skip('multibyte_variant_invalid')

        ctx.count('multibyte_programs')

    check_program(src, case.get('rsel', 0), ctx, 'prog', case.get('force_rects', ()))
