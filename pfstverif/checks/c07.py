"""C07 - copying never disturbs the tree; extraction is faithful and loses nothing."""

from __future__ import annotations

import ast
import re
import tokenize
from collections import Counter

from hypothesis import strategies as st

from .. import editmachine as em
from .. import gen
from ..editmachine import FST
from ..oracle import K, NoRef, S0, T, first_diff, parse_ref
from ..runner import Skip, Violation
from . import c01, c04, c05

ID = 'C07'
LEVEL = 'exploration'
TECHNIQUE = 'property-based testing over nodes and slices; oracles: snapshot equality, CPython parse of the piece via embeddings, cut == copy+delete (metamorphic), token conservation'
RULE = ('For module sources (real windows, snippets, templates, layout-mutated) a Hypothesis-drawn sample of nodes (copy / get / cut) and '
        'of (container, start, stop) slices (get_slice / view copy / cut) incl. virtual fields, with drawn trivia / pars / pars_walrus / '
        'pars_arglike / docstr / norm_get options, plus grids over programs with multi-line str / bytes / f-string literals in and out of docstring positions x every node x docstr value. Oracles: (1) source and positioned dump of the tree read from are identical before '
        'and after copy/get/get_slice, also when the call raises; (2) the piece is a root, its source parses on its own under CPython '
        '(through the embedding of its kind) to exactly the piece\'s tree, and its structure (contexts erased, docstring re-indent '
        'normalised) equals the original sub-tree, resp. the elements original[start:stop] in order; (3) on two copies of the tree, '
        'cut gives the same piece (src and dump) as copy and the same remainder (src and dump) as copy-then-delete with the same '
        'options; (4) the multiset of NAME (non-keyword) / NUMBER / STRING / f-string-part / COMMENT tokens of the original equals '
        'remainder + piece for a cut and includes the piece for a copy. Non-trivial = piece spans several lines, carries or '
        'neighbours a comment, or parentheses / delimiters had to be added; distinct by (source, target, options).')
ASSUMPTIONS = [
    'multi-line string tokens are compared after removing leading whitespace of continuation lines (documented docstring re-indentation)',
    'cut uses norm=True so that the remainder must still satisfy C01; refusals are counted; slices are requested with norm_get=True (valid AST form)',
    'sources with a lone backslash-continuation line or a continuation directly followed by a comment line are outside the domain (as in C04)',
    'pieces whose kind has no CPython embedding here (operators, expr_context) are counted and skipped for clause (2)',
] + c01.ASSUMPTIONS[:1]


def params(tier):
    if tier == 'quick':
        return {'examples': 2200, 'wall': 120, 'case_timeout': 40, 'targets': 8}

    return {'examples': 12000, 'wall': 600, 'case_timeout': 60, 'targets': 20}


def floors(tier):
    return {'distinct_nontrivial': 1500 if tier == 'quick' else 30000}


GET_OPTS = ({}, {}, {'trivia': False}, {'trivia': 'all'}, {'trivia': ('all', 'all')}, {'trivia': ('block', 'block')}, {'trivia': 'block+1'},
            {'trivia': ('none', 'line')}, {'trivia': ('all+', 'all+')}, {'pars': True}, {'pars': True, 'pars_walrus': True}, {'pars_walrus': None},
            {'pars_arglike': False}, {'docstr': False}, {'docstr': 'strict'}, {'norm_get': True}, {'trivia': (False, 'block-')}, {'pars_arglike': None, 'pars': True})


def strategy(tier):
    @st.composite
    def strat(draw):
        n = params(tier)['targets']

        return {'src': draw(gen.program(45)),
                'targets': draw(st.lists(st.tuples(st.integers(0, 1 << 30), st.integers(0, len(GET_OPTS) - 1), st.integers(-6, 7), st.integers(-6, 7), st.integers(0, 5)),
                                         min_size=1, max_size=n))}

    return strat()


# multi-line literals which are NOT str in the positions where a str would be a docstring / a re-indentable string statement (bytes, f-string, implicit
# concatenation of bytes), continuation lines indented more and less than the block: re-indentation must never reach into them
NONSTR_MULTILINE_PROGRAMS = (
    'class C:\n    def m(self):\n        b"""raw\n        bytes\n      less\n            more"""\n        x = 1\n        b\'\'\'later\n        stmt\'\'\'\n        return x',
    'def f():\n    b"""first\n    bytes"""\n    if a:\n        b"""if\n        first"""\n        rb"""raw\n  \\d"""\n    for i in j:\n        f"""f\n        {i}\n        string"""',
    'if a:\n    class D:\n        b"""class\n        bytes"""\n        def g(self):\n            (b"""par\n            bytes""")\n            b"x" b"""concat\n            bytes"""\n            v = b"""value\n            bytes"""',
)

def enumerate_cases(tier, shard, nshards, seed):
    """Grid: every node (copy / get / cut) and every container x every (start, stop) window of up to 3 elements (get_slice / cut), with four option
    sets, on the f-string, trivia-dense and container template programs."""

    from . import c03

    progs = gen.FSTRING_PROGRAMS + gen.TRIVIA_PROGRAMS + c03.GRID_TEMPLATES
    osels = (0, 3, 9, 13)
    k = 0

    for src in progs:
        try:
            tree = ast.parse(src)
        except SyntaxError:
            continue

        targets = []

        for ti in range(len(em.node_targets(tree))):
            targets.append((ti, 0))

        conts = em.container_targets(tree)
        jobs = [(ti, osels[(ti + j) % 4], 0, 0, 0) for ti, _ in targets for j in range(2)]

        for ci, (parent, field, n) in enumerate(conts):
            try:
                m = len(orig_elements(parent, field))
            except Exception:
                continue

            for a in range(0, m + 1):
                for b in range(a, min(m, a + 3) + 1):
                    jobs.append((ci, osels[(ci + a + b) % 4], a, b if b < m else 7, 3))

        for job in jobs:
            k += 1

            if k % nshards == shard and not (tier == 'quick' and (k * 2654435761 + seed * 40503) % 2 and False):
                yield {'src': src, 'targets': [list(job)], 'grid': True}

    # every node of the multi-line-string programs x docstr in (default, False, 'strict') x (copy, get); statement windows likewise
    for src in gen.DOCSTR_PROGRAMS + NONSTR_MULTILINE_PROGRAMS:
        tree = ast.parse(src)

        for ti in range(len(em.node_targets(tree))):
            for osel in (0, 13, 14):
                for mode in (0, 1):
                    k += 1

                    if k % nshards == shard:
                        yield {'src': src, 'targets': [[ti, osel, 0, 0, mode]], 'grid': True}

        for ci, (parent, field, n) in enumerate(em.container_targets(tree)):
            if em.slice_kind(parent, field) != 'stmts' or n is None:
                continue

            for a in range(0, n + 1):
                for b in range(a + 1, n + 1):
                    for osel in (0, 13, 14):
                        k += 1

                        if k % nshards == shard:
                            yield {'src': src, 'targets': [[ci, osel, a, b if b < n else 7, 3]], 'grid': True}


_WS_CONT = re.compile(r'\n[ \t]+')


def norm_tokens(src):
    out = Counter()

    try:
        toks = K(src)
    except (tokenize.TokenError, IndentationError, SyntaxError):
        return None

    import keyword

    for typ, s in toks:
        if typ == tokenize.NAME:
            if not keyword.iskeyword(s):
                out[('N', s)] += 1
        elif typ in (tokenize.STRING, tokenize.FSTRING_START, tokenize.FSTRING_MIDDLE, tokenize.FSTRING_END):
            out[('S', _WS_CONT.sub('\n', s))] += 1
        elif typ == tokenize.NUMBER:
            out[('#', s)] += 1
        elif typ == tokenize.COMMENT:
            out[('C', s.rstrip())] += 1

    return out


_DUMP_CONT = re.compile(r'\\n[ \\t]+|\\n(?:\\\\t| )+')


def norm_dump(a):
    """ast.dump with contexts erased and, inside string constants, whitespace after an (escaped) newline removed - the documented
    docstring re-indentation on copy must not count as a structural difference."""

    return re.sub(r'\\n(?: |\\t)+', r'\\n', S0(a))


_DOC_OWNERS = (ast.Module, ast.ClassDef, ast.FunctionDef, ast.AsyncFunctionDef)


def docstr_dump(a, docstr):
    """Like `norm_dump`, but whitespace after a newline is only erased inside the string constants which option `docstr` allows to be re-indented
    (docs: True = every multi-line string expression statement, 'strict' = only the first statement of a module / class / def, False = none). A
    string statement at the top of `a` is always erased: whether it sits in a docstring position depends on where it is looked at from."""

    allowed = []
    tops = a.body if isinstance(a, ast.Module) else [a]

    for top in tops:
        if isinstance(top, ast.Expr) and isinstance(top.value, ast.Constant) and isinstance(top.value.value, str):
            allowed.append(top.value)

    if docstr is not False:
        for n in ast.walk(a):
            for fld in ('body', 'orelse', 'finalbody'):
                body = getattr(n, fld, None)

                if not isinstance(body, list):
                    continue

                for k, st_ in enumerate(body):
                    if isinstance(st_, ast.Expr) and isinstance(st_.value, ast.Constant) and isinstance(st_.value.value, str):
                        if docstr is True or (k == 0 and fld == 'body' and isinstance(n, _DOC_OWNERS)):
                            allowed.append(st_.value)

    saved = [(c, c.value) for c in allowed]

    try:
        for c, v in saved:
            c.value = re.sub(r'\n[ \t]+', '\n', v)

        return S0(a)

    finally:
        for c, v in saved:
            c.value = v


def sig(e):
    if e is None:
        return None
    if isinstance(e, str):
        return ('name', e)
    if isinstance(e, ast.Name) and False:
        return ('name', e.id)

    return norm_dump(e)


def name_or_sig(e):
    return ('name', e.id) if isinstance(e, ast.Name) else sig(e)


def piece_elements(a, from_names=False):
    cls = a.__class__.__name__

    if cls in ('Tuple', 'List', 'Set'):
        return [name_or_sig(e) if from_names else sig(e) for e in a.elts]
    if cls == 'Module':
        return [sig(e) for e in a.body]
    if cls == '_arglikes':
        return [sig(e) for e in a.arglikes]
    if cls in ('MatchOr', 'MatchSequence'):
        return [sig(e) for e in a.patterns]
    if cls == '_pattern_attrlikes':
        return [sig(e) for e in a.patterns] + [(k, sig(p)) for k, p in zip(a.kwd_attrs, a.kwd_patterns)]
    if cls == 'MatchMapping':
        return [(sig(k), sig(p)) for k, p in zip(a.keys, a.patterns)] + ([('rest', a.rest)] if a.rest else [])
    if cls == 'Dict':
        return [(sig(k), sig(v)) for k, v in zip(a.keys, a.values)]
    if cls == 'BoolOp':
        return [sig(e) for e in a.values]
    if cls == 'Compare':
        return [sig(a.left)] + [sig(e) for e in a.comparators]
    if cls == 'arguments':
        return args_elements(a)

    for f in ('items', 'generators', 'ifs', 'names', 'cases', 'type_params', 'decorator_list', 'targets', 'handlers'):
        if hasattr(a, f) and cls.startswith('_'):
            return [sig(e) for e in getattr(a, f)]

    return None


def args_elements(a):
    out = []
    pos = a.posonlyargs + a.args
    defaults = [None] * (len(pos) - len(a.defaults)) + list(a.defaults)

    for x, d in zip(pos, defaults):
        out.append((sig(x), sig(d)))

    if a.vararg:
        out.append(('*', sig(a.vararg)))

    for x, d in zip(a.kwonlyargs, a.kw_defaults):
        out.append((sig(x), sig(d)))

    if a.kwarg:
        out.append(('**', sig(a.kwarg)))

    return out


def orig_elements(parent, field):
    cls = parent.__class__.__name__

    if field in ('_args', '_bases'):
        pos = parent.args if cls == 'Call' else parent.bases

        return [sig(e) for e in sorted(pos + parent.keywords, key=lambda n: (n.lineno, n.col_offset))]

    if field == '_all':
        if cls == 'Dict':
            return [(sig(k), sig(v)) for k, v in zip(parent.keys, parent.values)]
        if cls == 'MatchMapping':
            return [(sig(k), sig(p)) for k, p in zip(parent.keys, parent.patterns)] + ([('rest', parent.rest)] if parent.rest else [])
        if cls == 'Compare':
            return [sig(parent.left)] + [sig(e) for e in parent.comparators]
        if cls == 'arguments':
            return args_elements(parent)

    if field == '_body':
        body = parent.body

        if (isinstance(parent, (ast.FunctionDef, ast.AsyncFunctionDef, ast.ClassDef, ast.Module)) and body and isinstance(body[0], ast.Expr)
                and isinstance(body[0].value, ast.Constant) and isinstance(body[0].value.value, str)):
            body = body[1:]

        return [sig(e) for e in body]

    if field == '_attrs':
        return [sig(e) for e in parent.patterns] + [(k, sig(p)) for k, p in zip(parent.kwd_attrs, parent.kwd_patterns)]

    v = getattr(parent, field)

    return [sig(e) for e in v]


def py_slice(n, start, stop):
    """Python list slice semantics for drawn (start, stop); 7 means 'end'."""

    s = None if start == 7 else start
    e = None if stop == 7 else stop
    s2, e2, _ = slice(0 if s is None else s, e).indices(n)

    return (s2, e2) if s is not None else (n, n) if False else (s2, e2)


def check_piece(piece, ctx, desc, site):
    """Clause (2a): the piece parses on its own (through the embedding of its kind) to exactly its tree."""

    if not isinstance(piece, FST):
        ctx.count('piece_not_fst(primitive)')

        return

    if not piece.is_root:
        raise Violation('C07.not_root', f'{desc}: returned piece is not a root', site)

    a = piece.a
    src = piece.src
    name = a.__class__.__name__

    if src.rstrip(' \t\n').endswith('\\'):
        ctx.count('piece_ends_with_continuation(C01-dangling-continuation-eof family, not re-reported)')

        return

    if name.startswith('_'):
        refs = c05.ref_results(name, src)

        if refs is None:
            ctx.count('piece_no_safe_embedding')

            return

        got = c05.dump_pfst(name, a)

        if c05.significant(src) == []:
            if got not in ('[]', '{patterns: [], kwd_attrs: [], kwd_patterns: []}'):
                raise Violation('C07.piece_parse', f'{desc}: empty-source piece has elements: {got[:200]}', site)

            return

        wants = [c05.dump_result(r) for r in refs]

        if not wants:
            raise Violation('C07.piece_parse', f'{desc}: piece source does not parse on its own as {name}:\n{src[:600]}', site)

        if got not in wants:
            raise Violation('C07.piece_parse', f'{desc}: piece tree != CPython parse of piece source {first_diff(got, wants[0])}\n--- piece ---\n{src[:600]}', site)

        return

    try:
        ref = parse_ref(src, a)
    except NoRef:
        ctx.count(f'piece_kind_without_embedding:{name}')

        return
    except (SyntaxError, ValueError) as exc:
        # Tuple-like pieces of slices that are only valid inside a subscript / call etc. are handled by parse_ref; anything else is real
        raise Violation('C07.piece_parse', f'{desc}: piece source does not parse on its own as {name}: {exc!r}\n--- piece ---\n{src[:600]}', site) from None

    live, want = T(a), T(ref)

    if live != want:
        if isinstance(a, (ast.Tuple, ast.MatchSequence)) and (a.lineno, a.col_offset) != (ref.lineno, ref.col_offset):
            ctx.count('unparenthesised_sequence_extent_not_compared')  # wrapper parentheses become the sequence's own

            return

        raise Violation('C07.piece_parse', f'{desc}: piece tree != CPython parse of piece source {first_diff(live, want)}\n--- piece ---\n{src[:600]}', site)


def execute(case, ctx):
    src = case['src']

    if (why := c01.excluded(src)) and not case.get('no_exclude'):
        raise Skip(f'excluded_known_finding:{why}')

    if c04.LONE_CONT.search(src):
        raise Skip('domain:lone_continuation_line')  # ownership of comments / lines after a dangling backslash is ambiguous (same domain restriction as C04)

    try:
        root = FST(src, 'exec')
    except Exception as exc:
        raise Skip(f'build_failed:{type(exc).__name__}') from None

    t0 = T(root.a)
    orig_tokens = norm_tokens(src)

    if orig_tokens is None:
        raise Skip('tokenize_failed')

    nodes = em.node_targets(root.a)
    conts = em.container_targets(root.a)

    for tsel, osel, start, stop, mode in case['targets']:
        opts = {k: (tuple(v) if isinstance(v, list) else v) for k, v in GET_OPTS[osel].items()}
        is_slice = mode >= 3 and conts

        if is_slice:
            parent, field, n = em.pick(conts, tsel)
            pf = parent.f
            tgt_desc = f'{parent.__class__.__name__}.{field}[{start}:{stop}]'
            site = f'slice:{parent.__class__.__name__}.{field}'
            s_ = 'end' if start == 7 else start
            e_ = 'end' if stop == 7 else stop

            opts = {**opts, 'norm_get': True}  # slices are asked for in normalised (valid AST) form, see ASSUMPTIONS

            def do_copy(r=root, pf=pf):
                return pf.get_slice(s_, e_, field, **opts)

        elif nodes:
            node, parent, field, idx = em.pick(nodes, tsel)
            tgt_desc = f'{parent.__class__.__name__}.{field}[{idx}] {node.__class__.__name__}'
            site = f'node:{parent.__class__.__name__}.{field}'

            def do_copy(node=node, parent=parent):
                if mode == 0:
                    return node.f.copy(**opts)

                return parent.f.get(idx, field=field, **opts) if idx is not None else parent.f.get(field=field, **opts)
        else:
            continue

        desc = f'{"get_slice" if is_slice else "copy/get"} {tgt_desc} {opts or ""}'
        ctx.count('gets')

        # ---- (1) non-destructive, also on raise
        try:
            piece = do_copy()
            exc = None
        except Exception as e:
            piece = None
            exc = e

        if root.src != src or T(root.a) != t0:
            raise Violation('C07.copy_disturbs', f'{desc}{" raised " + repr(exc) if exc else ""}: the tree read from changed\n--- before ---\n{src[:600]}\n--- after ---\n{root.src[:600]}', site)

        if exc is not None:
            ctx.count(f'get_refused:{type(exc).__name__}')

            continue

        # ---- (2) faithful, self-contained
        check_piece(piece, ctx, desc, site)

        if isinstance(piece, FST):
            if is_slice:
                want = orig_elements(parent, field)
                got = piece_elements(piece.a, from_names=parent.__class__.__name__ in ('Global', 'Nonlocal'))

                if got is None:
                    ctx.count(f'slice_container_unknown:{piece.a.__class__.__name__}')
                else:
                    try:
                        n = len(want)
                        lo = n if start == 7 else max(0, min(n, start + n if start < 0 else start))
                        hi = n if stop == 7 else max(0, min(n, stop + n if stop < 0 else stop))
                    except TypeError:
                        lo = hi = 0

                    exp = want[lo:hi] if lo <= hi else None

                    if exp is None:
                        ctx.count('reversed_bounds_returned')
                    else:
                        if parent.__class__.__name__ in ('Global', 'Nonlocal'):
                            exp = [('name', e[1]) if isinstance(e, tuple) and e[0] == 'name' else e for e in exp]

                        if len(exp) == 1 and parent.__class__.__name__ in ('BoolOp', 'Compare') and sig(piece.a) == exp[0]:
                            got = [sig(piece.a)]  # normalised single-element "slice" is the element itself (docs d06)
                        elif not exp and parent.__class__.__name__ == 'Set':
                            got = []  # normalised empty set is `{*()}`

                        if got != exp and '\\\n' in piece.src and len(got) == len(exp) and all(
                                g == e or (isinstance(g, str) and isinstance(e, str) and re.sub(r'(?: |\\t)+', '', g) == re.sub(r'(?: |\\t)+', '', e)) for g, e in zip(got, exp)):
                            ctx.count('docstring_reindent_whitespace_tolerated')  # a backslash continuation inside a string statement: re-indentation reaches into the value
                            got = exp

                        if got != exp:
                            raise Violation('C07.slice_elements', f'{desc}: piece holds {len(got)} elements, original[{lo}:{hi}] has {len(exp)}; first difference: '
                                            f'{next(((g, e) for g, e in zip(got, exp) if g != e), (got[len(exp):len(exp) + 1], exp[len(got):len(got) + 1]))!r}\n--- piece ---\n{piece.src[:400]}', site)
            else:
                a, b = norm_dump(piece.a), norm_dump(node)

                if a == b and piece.a.__class__ is node.__class__:
                    da, db = docstr_dump(piece.a, opts.get('docstr', True)), docstr_dump(node, opts.get('docstr', True))
                    ctx.count('docstr_option_respected_checked')

                    if da != db:
                        raise Violation('C07.docstr_option', f'{desc}: a string which option docstr={opts.get("docstr", True)!r} does not allow to be re-indented changed its value '
                                        f'{first_diff(da, db)}\n--- piece ---\n{piece.src[:400]}', site)

                if a != b and re.sub(r'(?: |\\t)+', '', a) == re.sub(r'(?: |\\t)+', '', b) and ('"""' in piece.src or "'''" in piece.src or '\\\n' in piece.src):
                    ctx.count('docstring_reindent_whitespace_tolerated')  # re-indentation reaches into the value through a backslash continuation inside the string
                    a = b

                if a != b:
                    raise Violation('C07.structure', f'{desc}: piece structure != original sub-tree {first_diff(a, b)}\n--- piece ---\n{piece.src[:400]}', site)

            # ---- (4) copy: piece tokens subset of original
            ptoks = norm_tokens(piece.src)

            if ptoks is not None and (ptoks - orig_tokens):
                extra = ptoks - orig_tokens

                if not (set(k for k in extra) <= {('N', 'set')}):
                    raise Violation('C07.copy_invents', f'{desc}: piece contains tokens that are not in the original: {dict(extra)}\n--- piece ---\n{piece.src[:400]}', site)

        # ---- (3) cut == copy + delete, (4) conservation
        try:
            ra = FST(src, 'exec')
            rb = FST(src, 'exec')
        except Exception:
            continue

        copts = {**opts, 'norm': True}
        copts.pop('norm_get', None)

        def locate(r):
            if is_slice:
                p = em.pick(em.container_targets(r.a), tsel)[0]

                return p.f, None

            n_, p_, f_, i_ = em.pick(em.node_targets(r.a), tsel)

            return p_.f, n_.f

        pa, na = locate(ra)
        pb, nb = locate(rb)

        try:
            if is_slice:
                piece_a = pa.get_slice(s_, e_, field, cut=True, **copts)
            else:
                piece_a = na.cut(**copts)

            exc_a = None
        except Exception as e:
            exc_a = e

        try:
            if is_slice:
                piece_b = pb.get_slice(s_, e_, field, **copts)
                pb.put_slice(None, s_, e_, field, **copts)
            else:
                piece_b = nb.copy(**copts)
                nb.remove(**copts)

            exc_b = None
        except Exception as e:
            exc_b = e

        if exc_a is not None or exc_b is not None:
            if (exc_a is None) != (exc_b is None):
                ctx.count('cut_vs_copy_delete_refusal_differs')

                if exc_a is None and isinstance(exc_b, Exception) and rb.src == src:
                    pass

            ctx.count('cut_refused')

            continue

        ctx.count('cuts')

        if isinstance(piece_a, FST) and isinstance(piece_b, FST):
            if piece_a.src != piece_b.src or T(piece_a.a) != T(piece_b.a):
                raise Violation('C07.cut_piece', f'cut {tgt_desc} {copts}: cut piece != copy piece\n--- cut ---\n{piece_a.src[:400]}\n--- copy ---\n{piece_b.src[:400]}', site)

        if ra.src != rb.src:
            raise Violation('C07.cut_remainder', f'cut {tgt_desc} {copts}: remainder after cut != remainder after copy+delete\n--- cut ---\n{ra.src[:600]}\n--- copy+delete ---\n{rb.src[:600]}', site)

        if T(ra.a) != T(rb.a):
            raise Violation('C07.cut_remainder', f'cut {tgt_desc} {copts}: remainder trees differ {first_diff(T(ra.a), T(rb.a))}', site)

        emptied = False

        if is_slice:
            try:
                nall = len(orig_elements(parent, field))
                lo = nall if start == 7 else max(0, min(nall, start + nall if start < 0 else start))
                hi = nall if stop == 7 else max(0, min(nall, stop + nall if stop < 0 else stop))
                emptied = lo == 0 and hi == nall and nall > 0
            except Exception:
                pass

        if isinstance(piece_a, FST):
            rtoks = norm_tokens(ra.src)
            ptoks = norm_tokens(piece_a.src)

            if rtoks is not None and ptoks is not None:
                total = rtoks + ptoks
                lost = orig_tokens - total
                dup = total - orig_tokens
                dup = Counter({k: v for k, v in dup.items() if k not in (('N', 'set'), ('N', 'pass'))})

                if lost or dup:
                    raise Violation('C07.conservation', f'cut {tgt_desc} {copts}: tokens lost {dict(lost)} duplicated/invented {dict(dup)}\n--- original ---\n{src[:500]}\n--- remainder ---\n{ra.src[:500]}\n--- piece ---\n{piece_a.src[:300]}',
                                    f'{site}:{"lost" if lost else "dup"}:{"".join(sorted({k[0] for k in (lost or dup)}))}:{"slice" if is_slice else "stmtlike" if isinstance(node, (ast.stmt, ast.ExceptHandler, ast.match_case)) else "exprlike"}'
                                    f'{":emptied" if is_slice and emptied else ""}')

        psrc = piece.src if isinstance(piece, FST) else ''

        if '\n' in psrc or '#' in psrc or (isinstance(piece, FST) and not is_slice and psrc[:1] in '([' and not isinstance(node, (ast.Tuple, ast.List, ast.GeneratorExp, ast.ListComp))):
            ctx.mark_nontrivial((src, tsel, osel, start, stop, mode), {'target': tgt_desc, 'options': opts, 'piece': psrc[:200]} if tsel % 37 == 0 else None)
