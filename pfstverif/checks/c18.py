"""C18 - substitution rewrites exactly the matched nodes with the filled-in template."""

from __future__ import annotations

import ast
import copy

from hypothesis import strategies as st

from .. import gen
from ..editmachine import FST
import tokenize

from ..oracle import K_pos, S
from ..runner import Skip, Violation, fst_site
from . import c01, c04, c07

ID = 'C18'
LEVEL = 'exploration'
TECHNIQUE = 'model-based property-based testing: reference AST transformer (own walk, own matcher for a restricted pattern class, CPython-parsed template) vs sub()/subn()'
RULE = ('Programs: real windows, snippets, templates, layout-mutated. Scenarios (pattern, template) whose match depends only on the node\'s own '
        'type / context / list emptiness plus captures: wrap every loaded Name / Attribute (whole-match slot), swap BinOp operands into a call '
        '(two single-node captures), re-target a Call (single + virtual-field slice capture _args), List -> Tuple with prefix (slice capture), '
        'If-without-else -> While (test + statement slice capture), Return value wrap, identity template (whole-match slot only), statement '
        'replacement; crossed with nested in {False, True}, count in {0, 1, 2, 3}, on in {enter, leave}, back. Reference: a transformer on '
        'the pure ast.parse tree (pre-order, outermost first; with nested the captured parts are transformed again but never the template '
        'nodes nor the top node of a re-inserted whole match; count cuts off in walk order). Oracle: ast.dump(ast.parse(out.src)) == dump of '
        'the reference; C01 invariant on the result; subn counts == number of substitutions in the reference; identity template leaves the '
        'structure unchanged; every old line that lies on no matched node is preserved in order. Scenarios ctx_*: a pattern carrying an expr_context instance under ctx=True (that context only) and ctx=False '
        '(any context). sub() with the same arguments on a twin tree must give the same source as subn(). A raise must leave the tree unchanged from '
        'the last completed substitution (C12) and is otherwise not compared. Non-trivial = >= 2 substitutions in one run or a slice / '
        'multi-node capture, in a program with comments; distinct by (source, scenario, settings).')
ASSUMPTIONS = [
    'the reference matcher implements only the restricted pattern class listed; patterns are chosen so that ctx / type / emptiness decide the match',
    'count is combined only with templates that keep captures in source order (walk order of the new tree == walk order of the old)',
]

# plus the separate 'loop' case kind (run_loop)
SCENARIOS = ('wrap_name', 'wrap_name_attr', 'binop_call', 'call_retarget', 'list_tuple', 'if_while', 'return_wrap', 'identity_name', 'expr_stmt_pass', 'identity_binop',
             # quantifier captures (partial slices of a container) moved to another place of the template
             'compare_pick', 'list_rotate', 'call_rotate', 'body_rotate', 'boolop_rotate',
             # option ctx: a pattern with an expr_context INSTANCE matches that context only with ctx=True, any context with ctx=False
             'ctx_store_rename', 'ctx_any_rename', 'ctx_store_attr', 'ctx_any_attr')


# whole-match slot in every kind of template position x every kind of matched expression (enumerated, flat substitution)
WRAP_CLASSES = ('Yield', 'YieldFrom', 'Await', 'Lambda', 'IfExp', 'NamedExpr', 'Tuple', 'Compare', 'BoolOp', 'UnaryOp', 'BinOp', 'Dict', 'GeneratorExp', 'Constant', 'Starred', 'Attribute',
                'Subscript', 'Call', 'ListComp', 'JoinedStr', 'Set')
WRAP_TEMPLATES = ('f(__FST_, k=__FST_)', '[__FST_]', '__FST_ + 1', 'not __FST_', '__FST_.attr', '__FST_[0]', 'x[__FST_]', '(__FST_ for _ in y)', '__FST_ if c else d', 'c if __FST_ else d',
                  'lambda: __FST_', '{__FST_: __FST_}', 'f(*__FST_)', '-__FST_ ** 2', 'await __FST_', '(__FST_, 1)', '__FST_ < 2 < __FST_', 'z and __FST_', '[*__FST_]', 'w(**__FST_)', '__FST_()')
WRAP_PROGRAM = '''async def gen_():
    v0 = yield a
    v1 = yield from b
    v2 = await c
    v3 = lambda p: p
    v4 = a if b else c
    v5 = (w := 1)
    v6 = a, b
    v7 = a < b < c
    v8 = a and b
    v9 = not a
    v10 = a + b
    v11 = {k: v}
    v12 = (i for i in j)
    v13 = 1
    v14 = [*s, t]
    v15 = o.p
    v16 = q[r]
    v17 = h(1)
    v18 = [e for e in d]
    v19 = f'{a}b'
    v20 = {m, n}
    g((yield a), k=(await b), *[x for x in y])
    return (-1) ** 2, not (a < b), (lambda: 0)(), (a if b else c).d, (a, b)[0], {1: (x := 2)}
'''


def enumerate_cases(tier, shard, nshards, seed):
    k = 0

    for ci in range(len(WRAP_CLASSES)):
        for ti in range(len(WRAP_TEMPLATES)):
            k += 1

            if k % nshards == shard:
                yield {'kind': 'wrap', 'cls': ci, 'tmpl': ti}


def flatten_boolops(tree):
    """Nested BoolOps of the same operator spliced into their parent: sub() deliberately puts a same-operator BoolOp into a BoolOp slot as a slice
    ('z and __FST_' with 'a and b' gives 'z and a and b'), which is the same expression."""

    for n in ast.walk(tree):
        if isinstance(n, ast.BoolOp):
            changed = True

            while changed:
                changed = False
                vals = []

                for v in n.values:
                    if isinstance(v, ast.BoolOp) and type(v.op) is type(n.op):
                        vals.extend(v.values)
                        changed = True
                    else:
                        vals.append(v)

                n.values = vals

    return tree


def run_wrap(case, ctx):
    import fst.match as fm

    cname, tmpl = WRAP_CLASSES[case['cls']], WRAP_TEMPLATES[case['tmpl']]
    cls = getattr(ast, cname)
    src = WRAP_PROGRAM
    pure = ast.parse(src)
    ttree = ast.parse(tmpl, mode='eval').body

    def fill(t, n):
        t = copy.deepcopy(t)

        class R(ast.NodeTransformer):
            def visit_Name(self, x):
                return copy.deepcopy(n) if x.id == '__FST_' else x

        r = R().visit(t)

        return r

    count = [0]

    def ok(n):
        return isinstance(n, cls) and isinstance(getattr(n, 'ctx', ast.Load()), ast.Load)

    class T(ast.NodeTransformer):  # pre-order, flat: a matched node is replaced and not descended into
        def generic_visit(self, n):
            if ok(n):
                count[0] += 1

                return fill(ttree, n)

            return super().generic_visit(n)

        def visit(self, n):
            if isinstance(n, (ast.JoinedStr,)) and cls is not ast.JoinedStr:
                return n  # interiors of f-strings are not match sites here

            return self.generic_visit(n)

    try:
        expected = T().visit(copy.deepcopy(pure))
        ast.fix_missing_locations(expected)
        exp_S = c07.norm_dump(ast.parse(ast.unparse(expected)))
        model_ok = c07.norm_dump(expected) == exp_S
        exp_S = c07.norm_dump(flatten_boolops(ast.parse(ast.unparse(expected))))
    except Exception as exc:
        raise Skip(f'reference_failed:{type(exc).__name__}') from None

    if not model_ok:
        ctx.count('wrap_model_not_valid_python')  # e.g. '*' of a yield without parentheses cannot be expressed: the pair is outside the domain

        return

    pat = getattr(fm, 'M' + cname)(ctx=ast.Load) if cname in ('Tuple', 'Starred', 'Attribute', 'Subscript') else cls
    desc = f'sub({cname} -> {tmpl!r}, flat) on the expression kinds program'
    site = f'wrap:{cname}'
    root = FST(src, 'exec')
    ctx.count('subs')
    ctx.count('scenario:wrap')

    try:
        out, n_unique, n_total = root.subn(pat, tmpl, nested=False, norm=True)
    except Exception as exc:
        ctx.count(f'sub_raised:{type(exc).__name__}@{fst_site(exc)}')

        try:
            c01.check_invariant(root, None, 'C18.c01_after_raise')
        except Violation as v:
            raise Violation('C18.raise_desync', f'{desc} raised {exc!r} and left source and tree out of sync: {v.msg[:500]}', f'raise:{site}') from None

        return

    try:
        got_S = c07.norm_dump(flatten_boolops(ast.parse(root.src)))
    except SyntaxError as exc:
        raise Violation('C18.unparsable', f'{desc}: result does not parse: {exc!r}\n--- after ---\n{root.src[:900]}', site) from None

    if got_S != exp_S:
        from ..oracle import first_diff

        raise Violation('C18.structure', f'{desc}: result != reference {first_diff(got_S, exp_S)}\n--- after ---\n{root.src[:900]}\n--- reference ---\n{ast.unparse(expected)[:900]}', site)

    try:
        c01.check_invariant(root, None, 'C18.c01')
    except Violation as v:
        raise Violation('C18.c01', f'{desc}: {v.msg[:800]}', site) from None

    if (n_unique, n_total) != (count[0], count[0]):
        raise Violation('C18.counts', f'{desc}: subn reports ({n_unique}, {n_total}), reference performed {count[0]}', f'counts:{site}')

    if count[0]:
        ctx.mark_nontrivial(('wrap', cname, tmpl), {'matched_kind': cname, 'template': tmpl, 'substitutions': count[0], 'after': root.src[:300]} if (case['cls'] * 7 + case['tmpl']) % 41 == 0 else None)


def params(tier):
    if tier == 'quick':
        return {'examples': 2500, 'wall': 120, 'case_timeout': 40}

    return {'examples': 20000, 'wall': 600, 'case_timeout': 60}


def floors(tier):
    return {'distinct_nontrivial': 1000 if tier == 'quick' else 20000}


def strategy(tier):
    @st.composite
    def strat(draw):
        if draw(st.integers(0, 5)) == 0:  # loop settings on generated collapse chains
            return {'kind': 'loop', 'chains': draw(st.lists(st.integers(0, 7), min_size=1, max_size=6)), 'loop': draw(st.sampled_from([False, True, 0, 1, 2, 3, 4])),
                    'count': draw(st.sampled_from([0, 0, 1, 2, 3])), 'shape': draw(st.integers(0, 3)), 'form': draw(st.integers(0, 1))}

        return {'src': draw(gen.program(35)), 'scn': draw(st.integers(0, len(SCENARIOS) - 1)), 'nested': draw(st.booleans()), 'count': draw(st.sampled_from([0, 0, 0, 1, 2, 3])),
                'leave': draw(st.integers(0, 4)) == 0, 'back': draw(st.integers(0, 5)) == 0}

    return strat()


def in_fstring(parents, n):
    p = parents.get(id(n))

    while p is not None:
        if isinstance(p, (ast.JoinedStr, ast.FormattedValue)):
            return True

        p = parents.get(id(p))

    return False


class Ref:
    """Reference transformer for one scenario."""

    def __init__(self, scn, nested, count, leave):
        self.scn = scn
        self.nested = nested or leave  # on='leave' ignores nested=False (documented)
        self.count = count
        self.leave = leave
        self.n = 0
        self.matched_nodes = []

    # ---- matcher for the restricted pattern class
    def matches(self, n):
        s = self.scn

        if s in ('wrap_name', 'identity_name'):
            return isinstance(n, ast.Name) and isinstance(n.ctx, ast.Load)
        if s == 'wrap_name_attr':
            return isinstance(n, (ast.Name, ast.Attribute)) and isinstance(n.ctx, ast.Load)
        if s in ('binop_call', 'identity_binop'):
            return isinstance(n, ast.BinOp)
        if s == 'call_retarget':
            return isinstance(n, ast.Call)
        if s == 'list_tuple':
            return isinstance(n, ast.List) and isinstance(n.ctx, ast.Load)
        if s == 'if_while':
            return isinstance(n, ast.If) and not n.orelse
        if s == 'return_wrap':
            return isinstance(n, ast.Return) and n.value is not None
        if s == 'expr_stmt_pass':
            return isinstance(n, ast.Expr) and isinstance(n.value, ast.Call)
        if s == 'compare_pick':
            return isinstance(n, ast.Compare)
        if s == 'list_rotate':
            return isinstance(n, ast.List) and isinstance(n.ctx, ast.Load) and len(n.elts) >= 1
        if s == 'call_rotate':
            return isinstance(n, ast.Call) and not n.keywords and len(n.args) >= 1
        if s == 'body_rotate':
            return isinstance(n, ast.If) and not n.orelse
        if s == 'boolop_rotate':
            return isinstance(n, ast.BoolOp)
        if s == 'ctx_store_rename':
            return isinstance(n, ast.Name) and isinstance(n.ctx, ast.Store)
        if s == 'ctx_any_rename':
            return isinstance(n, ast.Name)
        if s == 'ctx_store_attr':
            return isinstance(n, ast.Attribute) and isinstance(n.ctx, ast.Store)
        if s == 'ctx_any_attr':
            return isinstance(n, ast.Attribute)

        return False

    def build(self, n, T):
        """Replacement for matched node n; T transforms captured parts (identity when not nested)."""

        s = self.scn
        L = ast.Load()

        if s in ('wrap_name', 'wrap_name_attr'):
            inner = copy.copy(n)

            if isinstance(inner, ast.Attribute):
                inner.value = T(inner.value)

            return ast.Call(func=ast.Name(id='log', ctx=L), args=[inner], keywords=[])
        if s in ('ctx_store_rename', 'ctx_any_rename'):
            return ast.Name(id='renamed', ctx=n.ctx)
        if s in ('ctx_store_attr', 'ctx_any_attr'):
            return ast.Attribute(value=T(n.value), attr='renamed', ctx=n.ctx)
        if s in ('identity_name', 'identity_binop'):
            inner = copy.copy(n)

            if isinstance(inner, ast.BinOp):
                inner.left, inner.right = T(inner.left), T(inner.right)

            return inner
        if s == 'binop_call':
            return ast.Call(func=ast.Name(id='g', ctx=L), args=[T(n.left), T(n.right)], keywords=[])
        if s == 'call_retarget':
            merged = sorted(n.args + n.keywords, key=lambda x: (x.lineno, x.col_offset))
            new = [T(x) if not isinstance(x, ast.keyword) else ast.keyword(arg=x.arg, value=T(x.value)) for x in merged]

            return ast.Call(func=ast.Name(id='h', ctx=L), args=[T(n.func)] + [x for x in new if not isinstance(x, ast.keyword)], keywords=[x for x in new if isinstance(x, ast.keyword)])
        if s == 'list_tuple':
            return ast.Tuple(elts=[ast.Name(id='x', ctx=L)] + [T(e) for e in n.elts], ctx=L)
        if s == 'if_while':
            return ast.While(test=T(n.test), body=[T(b) for b in n.body] + [ast.Break()], orelse=[])
        if s == 'return_wrap':
            return ast.Return(value=ast.Tuple(elts=[T(n.value), ast.Constant(value=None)], ctx=L))
        if s == 'expr_stmt_pass':
            return ast.Pass()
        if s == 'compare_pick':
            # the head slice is itself a Compare that the (nested) walk reaches after the substitution: it is transformed as a node of its own
            raw = [n.left] + list(n.comparators)
            head = T(raw[0]) if len(raw) == 2 else T(ast.Compare(left=raw[0], ops=list(n.ops[:-1]), comparators=raw[1:-1], lineno=n.lineno, col_offset=n.col_offset))

            return ast.Call(func=ast.Name(id='pick', ctx=L), args=[head, T(raw[-1])], keywords=[])
        if s == 'list_rotate':
            return ast.List(elts=[T(e) for e in n.elts[1:]] + [T(n.elts[0])], ctx=L)
        if s == 'call_rotate':
            return ast.Call(func=T(n.func), args=[T(e) for e in n.args[1:]] + [T(n.args[0])], keywords=[])
        if s == 'body_rotate':
            return ast.If(test=T(n.test), body=[T(b) for b in n.body[1:]] + [T(n.body[0])], orelse=[])
        if s == 'boolop_rotate':
            raw = list(n.values)
            rest = T(raw[1]) if len(raw) == 2 else T(ast.BoolOp(op=n.op, values=raw[1:], lineno=raw[1].lineno, col_offset=raw[1].col_offset))

            return ast.Call(func=ast.Name(id='f', ctx=L), args=[rest, T(raw[0])], keywords=[])

        raise AssertionError(s)

    def transform(self, n):
        """Pre-order (enter) or post-order (leave) reference rewrite."""

        if not isinstance(n, ast.AST):
            return n

        if isinstance(n, (ast.JoinedStr,)):
            return n  # not generated as match sites; left alone

        if self.leave:
            new = self.children(n)

            if self.matches(n) and (not self.count or self.n < self.count):
                self.n += 1
                self.matched_nodes.append(n)

                return self.build(new, lambda x: x)

            return new

        if self.matches(n) and (not self.count or self.n < self.count):
            self.n += 1
            self.matched_nodes.append(n)

            return self.build(n, self.transform if self.nested else (lambda x: x))

        return self.children(n)

    def children(self, n):
        """Copy of n with its children transformed in SYNTAX order (the order of walk()), not field order."""

        new = copy.copy(n)
        slots = []

        for f in n._fields:
            v = getattr(n, f, None)

            if isinstance(v, ast.AST):
                slots.append((first_pos(v), len(slots), f, None, v))
            elif isinstance(v, list):
                setattr(new, f, list(v))

                for i, e in enumerate(v):
                    if isinstance(e, ast.AST):
                        slots.append((first_pos(e), len(slots), f, i, e))

        for _, _, f, i, v in sorted(slots, key=lambda t: (t[0] is None, t[0] or (0, 0), t[1])):
            r = self.transform(v)

            if i is None:
                setattr(new, f, r)
            else:
                getattr(new, f)[i] = r

        return new


def first_pos(a):
    best = None

    for n in ast.walk(a):
        if getattr(n, 'lineno', None) is not None:
            p = (n.lineno, n.col_offset)

            if best is None or p < best:
                best = p

    return best


def pattern_and_template(scn):
    from ast import Load, expr

    from fst.match import M, MAttribute, MBinOp, MCall, MExpr, MIf, MList, MName, MOR, MReturn

    if scn == 'wrap_name':
        return MName(ctx=Load), 'log(__FST_)'
    if scn == 'wrap_name_attr':
        return MOR(MName(ctx=Load), MAttribute(ctx=Load)), 'log(__FST_)'
    if scn == 'identity_name':
        return MName(ctx=Load), '__FST_'
    if scn == 'identity_binop':
        return MBinOp, '__FST_'
    if scn == 'binop_call':
        return MBinOp(M(l=...), ..., M(r=...)), 'g(__FST_l, __FST_r)'
    if scn == 'call_retarget':
        return MCall(func=M(f=...), _args=M(a=...)), 'h(__FST_f, __FST_a)'
    if scn == 'list_tuple':
        return MList(elts=M(e=...), ctx=Load), '(x, __FST_e)'
    if scn == 'if_while':
        return MIf(test=M(t=...), body=M(b=...), orelse=[]), 'while __FST_t:\n    __FST_b\n    break'
    if scn == 'return_wrap':
        return MReturn(M(v=expr)), 'return (__FST_v, None)'
    if scn == 'expr_stmt_pass':
        return MExpr(MCall), 'pass'

    if scn in ('ctx_store_rename', 'ctx_any_rename'):
        return MName(ctx=ast.Store()), 'renamed'
    if scn in ('ctx_store_attr', 'ctx_any_attr'):
        return MAttribute(value=M(v=...), ctx=ast.Store()), '__FST_v.renamed'

    from fst.match import MBoolOp, MCompare, MQSTAR

    if scn == 'compare_pick':
        return MCompare(_all=[MQSTAR(head=...), M(last=...)]), 'pick(__FST_head, __FST_last)'
    if scn == 'list_rotate':
        return MList(elts=[M(first=...), MQSTAR(rest=...)], ctx=Load), '[__FST_rest, __FST_first]'
    if scn == 'call_rotate':
        return MCall(func=M(f=...), args=[M(a0=...), MQSTAR(more=...)], keywords=[]), '__FST_f(__FST_more, __FST_a0)'
    if scn == 'body_rotate':
        return MIf(test=M(t=...), body=[M(s0=...), MQSTAR(tail=...)], orelse=[]), 'if __FST_t:\n    __FST_tail\n    __FST_s0'
    if scn == 'boolop_rotate':
        return MBoolOp(values=[M(a=...), MQSTAR(r=...)]), 'f(__FST_r, __FST_a)'

    raise AssertionError(scn)


def run_loop(case, ctx):
    """`loop`: every location is substituted again while it still matches, up to `loop` times (True / 0: until it no longer matches); `count`
    counts locations. Collapse chains 'not not X' -> 'X' (or wrapper calls w(w(X)) -> X) of drawn depths at several locations; the reference is
    arithmetic on the chain depths."""

    from ast import Not

    from fst.match import M, MCall, MName, MUnaryOp

    chains, loop, count, shape, form = case['chains'], case['loop'], case['count'], case['shape'], case['form']

    def chain(k, name):
        return ('not ' * k + name) if form == 0 else ('w(' * k + name + ')' * k)

    def line(i, k):
        e = chain(k, f'a{i}')

        return [f'r{i} = {e}', f'r{i} = [{e}, b{i}]', f'if {e}:\n    pass', f'r{i} = f(x, k={e})'][(shape + i) % 4]

    src = '\n'.join(line(i, k) for i, k in enumerate(chains))
    unlimited = loop is True or (loop is not False and loop <= 0)
    per_loc = 1 if loop is False else (10 ** 9 if unlimited else loop)
    out_chains, n_unique, n_total = [], 0, 0

    for k in chains:
        if k >= 2 and (not count or n_unique < count):
            it = min(per_loc, k // 2)
            n_unique += 1
            n_total += it
            out_chains.append(k - 2 * it)
        else:
            out_chains.append(k)

    exp_src = '\n'.join(line(i, k) for i, k in enumerate(out_chains))

    if form == 0:
        pat, repl = MUnaryOp(op=Not, operand=MUnaryOp(op=Not, operand=M(x=...))), '__FST_x'
    else:
        pat, repl = MCall(func=MName('w'), args=[MCall(func=MName('w'), args=[M(x=...)], keywords=[])], keywords=[]), '__FST_x'

    kw = {'loop': loop}

    if count:
        kw['count'] = count

    desc = f'subn(collapse {"not not X" if form == 0 else "w(w(X))"} -> X, {kw}) on chains of depth {chains}'
    site = f'loop:{"not" if form == 0 else "call"}'
    root = FST(src, 'exec')
    ctx.count('subs')
    ctx.count('scenario:loop')

    try:
        out, got_unique, got_total = root.subn(pat, repl, **kw)
    except Exception as exc:
        raise Violation('C18.loop_raise', f'{desc} raised {exc!r}\n--- before ---\n{src}', f'raise:{site}') from None

    try:
        got_S = c07.norm_dump(ast.parse(root.src))
    except SyntaxError as exc:
        raise Violation('C18.unparsable', f'{desc}: result does not parse: {exc!r}\n--- after ---\n{root.src[:600]}', site) from None

    if got_S != c07.norm_dump(ast.parse(exp_src)):
        raise Violation('C18.loop', f'{desc}: result differs from the reference\n--- before ---\n{src}\n--- after ---\n{root.src}\n--- reference ---\n{exp_src}', site)

    try:
        c01.check_invariant(root, None, 'C18.c01')
    except Violation as v:
        raise Violation('C18.c01', f'{desc}: {v.msg[:800]}', site) from None

    if (got_unique, got_total) != (n_unique, n_total):
        raise Violation('C18.counts', f'{desc}: subn reports ({got_unique}, {got_total}), reference ({n_unique} locations, {n_total} substitutions)', f'counts:{site}')

    if n_total > n_unique or (count and sum(k >= 2 for k in chains) > count):
        ctx.mark_nontrivial(case, {'source': src, 'settings': kw, 'after': root.src, 'counts': [got_unique, got_total]} if len(chains) == 3 else None)


def execute(case, ctx):
    if case.get('kind') == 'loop':
        return run_loop(case, ctx)

    if case.get('kind') == 'wrap':
        return run_wrap(case, ctx)

    src = case['src']

    if c01.excluded(src) or c04.LONE_CONT.search(src):
        raise Skip('domain_excluded')

    scn = SCENARIOS[case['scn']]
    nested, count, leave, back = case['nested'], case['count'], case['leave'], case['back']

    if count and scn in ('call_retarget',) and False:
        count = 0

    try:
        pure = ast.parse(src)
        root = FST(src, 'exec')
    except Exception as exc:
        raise Skip(f'build_failed:{type(exc).__name__}') from None

    # f-string interiors: matches inside f-strings make the reference ambiguous (debug strings, nested quotes): skip such programs for name/attr scenarios
    if any(isinstance(n, ast.JoinedStr) for n in ast.walk(pure)):
        raise Skip('domain:program_with_fstring')

    if back and (count or nested):
        back = False  # order-sensitive settings are only modelled for the forward walk

    ref = Ref(scn, nested, count, leave)

    try:
        expected = ref.transform(pure)
        ast.fix_missing_locations(expected)
        exp_S = c07.norm_dump(ast.parse(ast.unparse(expected)))
    except RecursionError:
        raise Skip('recursion_in_reference') from None
    except Exception as exc:
        raise Skip(f'reference_unparse_failed:{type(exc).__name__}') from None

    pat, repl = pattern_and_template(scn)
    kw = {'nested': nested, 'norm': True, 'elif_': False}  # elif_=False: an If put as the sole statement of an else block is not folded into 'elif' (that would rewrite the untouched 'else:' line); C01 is stated for normalisation enabled: without it a one-operand Compare / BoolOp slice is left as a degenerate node

    if count:
        kw['count'] = count
    if leave:
        kw['on'] = 'leave'
    if back:
        kw['back'] = True
    if scn.startswith('ctx_'):
        kw['ctx'] = scn.startswith('ctx_store')

    desc = f'sub({scn}: {repl!r}, {kw})'
    site = f'{scn}:{"nested" if nested else "flat"}:{"leave" if leave else "enter"}'
    ctx.count('subs')
    ctx.count(f'scenario:{scn}')

    try:
        out, n_unique, n_total = root.subn(pat, repl, **kw)
    except Exception as exc:
        ctx.count(f'sub_raised:{type(exc).__name__}@{fst_site(exc)}')

        # a raising sub must leave a tree that still satisfies C01 (substitutions done so far are complete)
        try:
            c01.check_invariant(root, None, 'C18.c01_after_raise')
        except Violation as v:
            raise Violation('C18.raise_desync', f'{desc} raised {exc!r} and left source and tree out of sync: {v.msg[:600]}', f'raise:{site}') from None

        return

    if out is not root:
        raise Violation('C18.identity', f'{desc}: sub did not return self', site)

    new_src = root.src

    # sub() is subn() without the counts: same arguments, same result
    try:
        twin = FST(src, 'exec')
        twin.sub(pat, repl, **kw)
        twin_src = twin.src
    except Exception as exc:
        raise Violation('C18.sub_vs_subn', f'{desc}: subn() returned but sub() with the same arguments raised {exc!r}', f'sub_vs_subn:{site}') from None

    if twin_src != new_src:
        raise Violation('C18.sub_vs_subn', f'{desc}: sub() and subn() give different results for the same arguments\n--- subn ---\n{new_src[:600]}\n--- sub ---\n{twin_src[:600]}', f'sub_vs_subn:{site}')

    try:
        got_S = c07.norm_dump(ast.parse(new_src))
    except SyntaxError as exc:
        raise Violation('C18.unparsable', f'{desc}: result does not parse: {exc!r}\n--- before ---\n{src[:600]}\n--- after ---\n{new_src[:600]}', site) from None

    if got_S != exp_S:
        from ..oracle import first_diff

        raise Violation('C18.structure', f'{desc}: result != reference transformer {first_diff(got_S, exp_S)}\n--- before ---\n{src[:600]}\n--- after ---\n{new_src[:600]}\n--- reference ---\n{ast.unparse(expected)[:600]}', site)

    try:
        c01.check_invariant(root, None, 'C18.c01')
    except Violation as v:
        raise Violation('C18.c01', f'{desc}: {v.msg[:800]}', site) from None

    if n_unique != ref.n or n_total != ref.n:
        raise Violation('C18.counts', f'{desc}: subn reports ({n_unique}, {n_total}) substitutions, reference performed {ref.n}', f'counts:{site}')

    if scn.startswith('identity') and c07.norm_dump(ast.parse(new_src)) != c07.norm_dump(pure):
        raise Violation('C18.identity_template', f'{desc}: whole-match-only template changed the structure', site)

    # text outside substituted nodes: old lines that no matched node touches survive in order. A matched expression's own grouping
    # parentheses and, for statements, the comment block directly above and the line comment (default trivia of a statement put)
    # belong to the touched region.
    touched = set()

    try:
        _, lend = c04.logical_lines(src)
    except Exception:
        lend = {}

    try:
        toks = [t for t in K_pos(src)]
    except Exception:
        toks = []

    code = [t for t in toks if t[0] != tokenize.COMMENT]
    src_lines = src.split('\n')

    for n in ref.matched_nodes:
        if getattr(n, 'end_lineno', None) is None:
            continue  # a node the reference constructed itself (head of a Compare / rest of a BoolOp): it lies inside a matched original node

        lo, hi = n.lineno, n.end_lineno

        if isinstance(n, ast.expr) and code:
            s_pos = (n.lineno - 1, len(src_lines[n.lineno - 1].encode()[:n.col_offset].decode()))
            e_pos = (n.end_lineno - 1, len(src_lines[n.end_lineno - 1].encode()[:n.end_col_offset].decode()))
            i0 = next((i for i, t in enumerate(code) if t[2] >= s_pos), len(code))
            i1 = max((i for i, t in enumerate(code) if t[3] <= e_pos), default=-1)

            while i0 > 0 and i1 + 1 < len(code) and code[i0 - 1][1] == '(' and code[i1 + 1][1] == ')':
                i0 -= 1
                i1 += 1

            if 0 <= i0 < len(code) and 0 <= i1 < len(code):
                lo, hi = min(lo, code[i0][2][0] + 1), max(hi, code[i1][3][0] + 1)
        elif isinstance(n, ast.stmt):
            while lo > 1 and src_lines[lo - 2].lstrip().startswith('#'):
                lo -= 1

        while lo > 1 and src_lines[lo - 2].rstrip().endswith('\\'):
            lo -= 1  # physical lines joined to the node's first line by a backslash continuation

        # the whole logical line of the node's last line (a following statement joined by '; \\' + newline is re-laid out with it)
        hi = max(hi, lend.get(hi - 1, hi - 1) + 1)

        for ln in range(lo, hi + 1):
            touched.add(ln)

    old_lines = src.split('\n')
    keep = [l for i, l in enumerate(old_lines, 1) if i not in touched and l.strip()]
    new_lines = new_src.split('\n')
    j = 0

    for l in keep:
        while j < len(new_lines) and new_lines[j] != l:
            j += 1

        if j == len(new_lines):
            raise Violation('C18.text_outside', f'{desc}: line {l!r}, which lies on no substituted node, is not preserved\n--- before ---\n{src[:600]}\n--- after ---\n{new_src[:600]}', f'text:{site}')

        j += 1

    if (ref.n >= 2 or scn in ('call_retarget', 'list_tuple', 'if_while')) and ref.n >= 1 and '#' in src:
        ctx.mark_nontrivial(case, {'scenario': scn, 'settings': kw, 'substitutions': ref.n, 'before': src[:200], 'after': new_src[:200]} if ref.n % 7 == 3 else None)
