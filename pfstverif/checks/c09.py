"""C09 - replacing an operand never changes how the surrounding expression groups."""

from __future__ import annotations

import ast
import copy
import itertools

from ..editmachine import FST
from ..oracle import S, S0
from ..runner import Skip, Violation, fst_site

ID = 'C09'
LEVEL = 'exploration'
TECHNIQUE = 'bounded exhaustive enumeration (slot x child x layout x code form x pars) with a pure-AST substitution model checked by CPython unparse/parse'
RULE = ('Finite product: every expression / pattern slot template (each side of each binary operator, unary operands, BoolOp and '
        'Compare positions, call func/args/keywords/starred, subscript value/slice, attribute base, conditional and lambda parts, '
        'walrus value, comprehension parts, await/yield operands, dict/sequence elements, f-string values and operands one level below an f-string replacement field, statement-level slots, '
        'pattern slots) x every child kind (one representative per expression kind / operator / pattern kind) x child layout '
        '{bare, parenthesised, parenthesised multi-line with comment, split before operator} x parent layout {one line, enclosed '
        'multi-line, backslash continuation} x code form {src, AST, FST} x pars {auto, True}. Expected = pure AST of the parent '
        'with the slot replaced by the child\'s pure AST (contexts per Python rules); the pair is checked only if '
        'ast.parse(ast.unparse(expected)) reproduces expected. Oracle: if replace() returns, ast.dump(ast.parse(root.src)) == '
        'ast.dump(expected). A raise is a refusal (counted), not a violation. Non-trivial = ast.unparse parenthesises the child in '
        'that slot (precedence / syntax requires parentheses) or a multi-line layout is involved; distinct by full case tuple. '
        'Additionally every slot x child is run with every other replaced operand (OCCUPANTS: parenthesised placeholder, generator '
        'expression sharing its call\'s parentheses, bare / parenthesised tuple, lambda, conditional, yield ...; kept only where the '
        'occupant sits at the slot path without regrouping) at the one-line parent layout. Both tiers enumerate the whole product.')
ASSUMPTIONS = [
    'the slot and child tables in this file define "the whole expression and pattern grammar" for this check; they are listed in evidence',
    'validity of a (slot, child) pair is CPython\'s: expected must survive unparse -> parse unchanged',
]

BINOPS = ('+', '-', '*', '/', '//', '%', '**', '@', '<<', '>>', '|', '&', '^')
SLOTS = tuple(
    [f'x = SLOT {op} b' for op in BINOPS] + [f'x = a {op} SLOT' for op in BINOPS] +
    ['x = -SLOT', 'x = +SLOT', 'x = ~SLOT', 'x = not SLOT',
     'x = SLOT and b', 'x = a and SLOT', 'x = a and SLOT and c', 'x = SLOT or b', 'x = a or SLOT',
     'x = SLOT < b', 'x = a < SLOT', 'x = a < SLOT < c', 'x = SLOT is not b', 'x = a not in SLOT', 'x = a == SLOT',
     'x = SLOT(a)', 'x = f(SLOT)', 'x = f(SLOT, b)', 'x = f(*SLOT)', 'x = f(k=SLOT)', 'x = f(**SLOT)', 'x = f(a)(SLOT)',
     'x = SLOT[a]', 'x = a[SLOT]', 'x = a[SLOT:b]', 'x = a[b:SLOT]', 'x = a[b:c:SLOT]', 'x = a[SLOT, b]', 'x = SLOT.attr',
     'x = SLOT if b else c', 'x = a if SLOT else c', 'x = a if b else SLOT',
     'x = lambda: SLOT', 'x = lambda a=SLOT: a', 'x = (y := SLOT)', 'x = [y := SLOT]',
     'x = [i for i in SLOT]', 'x = [i for i in a if SLOT]', 'x = [SLOT for i in a]', 'x = {SLOT: v for i in a}', 'x = {k: SLOT for i in a}',
     'x = (SLOT for i in a)', 'x = [i for i in a for j in SLOT]', 'x = {SLOT for i in a}',
     'x = await SLOT', 'x = yield SLOT', 'x = yield from SLOT', 'x = *SLOT, b', 'x = [*SLOT]',
     'x = {SLOT: v}', 'x = {k: SLOT}', 'x = {**SLOT}', 'x = [SLOT, b]', 'x = (SLOT, b)', 'x = SLOT, b', 'x = {SLOT, b}', 'x = (SLOT)',
     "x = f'{SLOT}'", "x = f'{SLOT!r:>{w}}'", "x = f'{a:{SLOT}}'",
     'x = SLOT', 'x += SLOT', 'x: SLOT = 1', 'x: int = SLOT', 'return SLOT', 'SLOT', 'if SLOT: pass', 'while SLOT: pass', 'for i in SLOT: pass',
     'with SLOT: pass', 'with SLOT as y: pass', 'with a, SLOT: pass', 'assert SLOT', 'assert a, SLOT', 'raise SLOT', 'raise a from SLOT',
     '@SLOT\ndef f(): pass', 'def f(a=SLOT): pass', 'def f(a: SLOT): pass', 'def f() -> SLOT: pass', 'def f(*, a=SLOT): pass',
     'class C(SLOT): pass', 'class C(m=SLOT): pass', 'match SLOT:\n case _: pass', 'match a:\n case _ if SLOT: pass',
     'del SLOT', 'del a, SLOT', 'SLOT = 1', 'SLOT, a = 1', 'for SLOT in a: pass', '[i for SLOT in a]', 'with a as SLOT: pass', 'SLOT += 1', 'SLOT: int = 1',
     'try: pass\nexcept SLOT: pass', 'type X = SLOT', 'def f[T: SLOT](): pass', 'x = a[SLOT][b]', 'x = (a, SLOT)[0]', 'x = a.b(SLOT).c',
     'match a:\n case SLOT: pass', 'match a:\n case [SLOT, b]: pass', 'match a:\n case {1: SLOT}: pass', 'match a:\n case C(SLOT): pass',
     'match a:\n case C(k=SLOT): pass', 'match a:\n case SLOT | b: pass', 'match a:\n case b | SLOT: pass', 'match a:\n case SLOT as y: pass',
     'match a:\n case (SLOT): pass', 'match a:\n case [*_, SLOT]: pass', 'match a:\n case SLOT, b: pass',
     'async with SLOT: pass', 'async with SLOT as y: pass', 'async with a, SLOT: pass', 'async with a as SLOT: pass', 'async for SLOT in a: pass',
     'async for i in SLOT: pass', 'x = [i async for i in SLOT]', 'x = [i async for SLOT in a]', 'async def f(a=SLOT): pass', 'async def f() -> SLOT: pass',
     'x = not SLOT', 'x = a and SLOT', 'x = SLOT or b', 'x = SLOT < b', 'x = a < SLOT < c', 'x = a is not SLOT', 'x = SLOT in b', 'global_ = SLOT; y = 1',
     'if a: pass\nelif SLOT: pass', 'x = a[SLOT::c]', 'x = {**a, SLOT: v}', 'print(SLOT, *a)', 'print(*a, SLOT)', 'f(k=v, *SLOT)',
     # one level below an f-string replacement field: a `:` / `!` / `=` of the operand would be read as conversion / format spec unless parenthesised
     "x = f'{SLOT, b}'", "x = f'{a, SLOT}'", "x = f'{a, SLOT!r:>5}'", "x = f'{a if b else SLOT}'", "x = f'{a or SLOT}'", "x = f'{a + SLOT}'", "x = f'{-SLOT}'",
     "x = f'{[SLOT]}'", "x = f'{g(SLOT)}'", "x = f'{a:{b, SLOT}}'", "x = f'{a < SLOT}'", "x = f'{*SLOT, b}'", "x = f'{a[SLOT]}'", "x = f'{(a, SLOT)}'", "x = f'{not SLOT}'"])

EXPR_CHILDREN = ('x', '1', '-1', '1j', '1.5', "'s'", "b'b'", 'None', '...', 'a.b', 'a[b]', 'a[b:c]', 'f()', 'f(a, k=v)',
                 'a + b', 'a - b', 'a * b', 'a / b', 'a // b', 'a % b', 'a ** b', 'a @ b', 'a << b', 'a >> b', 'a | b', 'a & b', 'a ^ b',
                 '-a', '+a', '~a', 'not a', 'a and b', 'a or b', 'a < b', 'a < b < c', 'a is not b', 'a not in b', 'a == b',
                 'a if b else c', 'lambda: x', 'lambda a, b=1: a', 'y := 1', 'a, b', 'a,', '()', '(a, b)', '[a, b]', '[]', '{a, b}', '{a: b}', '{}',
                 '[i for i in j]', '{i for i in j}', '{i: j for i in k}', '(i for i in j)', "f'{a}'", "'a' 'b'", 'await a', 'yield', 'yield a',
                 'yield from a', '*a', '-a ** b', 'a ** -b', 'not a in b', '(yield)', 'a.b.c', 'a[b][c]', '-1j', '1 + 2j', 'a if b else c if d else e')
PATTERN_CHILDREN = ('1', '-1', "'s'", 'None', 'y', '_', 'a.b', '[a, b]', '(a, b)', '[a, *b]', '[]', '{1: a}', '{1: a, **r}', 'C()', 'C(a, k=b)', 'a | b',
                    '1 | 2 | 3', 'a as b', '[a] as b', '*a', '(a)', '1 + 2j', 'a, b', '(a | b)')

CHILD_LAYOUTS = ('bare', 'par', 'par_ml', 'split')
PARENT_LAYOUTS = ('line', 'enclosed', 'backslash')
FORMS = ('src', 'ast', 'fst')
PARS = ('auto', True)


# what stands in the slot before the replacement (the replaced operand): the placeholder name, parenthesised variants of it, and other operand shapes -
# among them a generator expression which shares the parentheses of its call ('gen_solo', only valid as a sole call argument)
OCCUPANTS = ('SLOT', '(SLOT)', '(  # o\n    SLOT\n)', '((SLOT))', 'q for q in r', '(q for q in r)', 'q, r', '(q, r)', 'q + r', 'q(r)', 'lambda: q', '[q, r]', 'q if r else s', 'yield')
PATTERN_OCCUPANTS = ('SLOT', '(SLOT)', '[q, r]', 'q | r', '(q | r)', 'q, r', 'C(q)', 'q as r')


def is_pattern_slot(slot):
    return ' case ' in slot and 'if SLOT' not in slot


def params(tier):
    if tier == 'quick':
        return {'examples': 0, 'wall': 200, 'case_timeout': 30}

    return {'examples': 0, 'wall': 600, 'case_timeout': 30}


def exhaustive(tier):
    return True


def floors(tier):
    return {'distinct_nontrivial': 1500 if tier == 'quick' else 30000, 'puts_ok': 5000 if tier == 'quick' else 100000}


def enumerate_cases(tier, shard, nshards, seed):
    k = 0

    for si, slot in enumerate(SLOTS):
        children = PATTERN_CHILDREN if is_pattern_slot(slot) else EXPR_CHILDREN

        for ci, child in enumerate(children):
            for cl, pl, form, pars in itertools.product(CHILD_LAYOUTS, PARENT_LAYOUTS, FORMS, PARS):
                k += 1

                if k % nshards != shard:
                    continue

                base = cl == 'bare' and pl == 'line' and pars == 'auto'


                yield {'slot': si, 'child': ci, 'cl': cl, 'pl': pl, 'form': form, 'pars': pars}

            # the replaced operand: every other occupant of the slot, at the one-line parent layout
            for oi in range(1, len(PATTERN_OCCUPANTS if is_pattern_slot(slot) else OCCUPANTS)):
                for cl, form, pars in itertools.product(('bare', 'par'), FORMS, PARS):
                    if cl == 'par' and form != 'src':
                        continue

                    k += 1

                    if k % nshards == shard:
                        yield {'slot': si, 'child': ci, 'cl': cl, 'pl': 'line', 'form': form, 'pars': pars, 'occ': oi}


def coverage_extra(tier):
    return {'slots': len(SLOTS), 'expr_children': len(EXPR_CHILDREN), 'pattern_children': len(PATTERN_CHILDREN),
            'product_size': sum(len(PATTERN_CHILDREN if is_pattern_slot(s) else EXPR_CHILDREN) for s in SLOTS) * len(CHILD_LAYOUTS) * len(PARENT_LAYOUTS) * len(FORMS) * len(PARS)}


def find_slot(tree):
    for n in ast.walk(tree):
        for f in n._fields:
            v = getattr(n, f, None)

            if isinstance(v, list):
                for i, e in enumerate(v):
                    if _is_slot(e):
                        return n, f, i
            elif _is_slot(v):
                return n, f, None

    return None


def _is_slot(e):
    return (isinstance(e, ast.Name) and e.id == 'SLOT') or (isinstance(e, ast.MatchAs) and e.name == 'SLOT' and e.pattern is None)


def path_to(tree, target):
    def rec(n, path):
        if n is target:
            return path

        for f in n._fields:
            v = getattr(n, f, None)

            if isinstance(v, list):
                for i, e in enumerate(v):
                    if isinstance(e, ast.AST) and (r := rec(e, path + [(f, i)])) is not None:
                        return r
            elif isinstance(v, ast.AST) and (r := rec(v, path + [(f, None)])) is not None:
                return r

        return None

    return rec(tree, [])


def follow(tree, path):
    n = tree

    for f, i in path:
        n = getattr(n, f)[i] if i is not None else getattr(n, f)

    return n


def set_ctx(a, ctx):
    if isinstance(a, (ast.Name, ast.Attribute, ast.Subscript, ast.Starred, ast.Tuple, ast.List)):
        a.ctx = ctx()

        if isinstance(a, ast.Starred):
            set_ctx(a.value, ctx)
        elif isinstance(a, (ast.Tuple, ast.List)):
            for e in a.elts:
                set_ctx(e, ctx)


def parse_child(child, pattern):
    if pattern:
        return ast.parse(f'match _:\n case {child}: pass').body[0].cases[0].pattern

    if child.startswith('*'):
        return ast.parse(f'[{child}]').body[0].value.elts[0]

    return ast.parse(f'(\n{child}\n)', mode='eval').body


def layout_child(child, cl, pattern):
    if cl == 'bare':
        return child
    if cl == 'par':
        return None if child.startswith('*') else f'({child})'
    if cl == 'par_ml':
        return None if child.startswith('*') else f'(  # c\n    {child}\n)'

    # split: newline before the first top-level binary / boolean / compare operator (only meaningful for source form)
    for op in (' and ', ' or ', ' + ', ' - ', ' * ', ' ** ', ' < ', ' if ', ' | ', ' not in ', ' is not ', ' == ', ' @ ', ' // ', ' % ', ' << ', ' >> ', ' & ', ' ^ ', ' / '):
        i = child.find(op)

        if i > 0 and child.count('(') == 0 and child.count('[') == 0:
            return child[:i] + '\n' + child[i:].lstrip(' ') if False else child[:i] + '\n ' + child[i + 1:]

    return None


def layout_parent(slot, pl):
    if pl == 'line':
        return slot

    if not slot.startswith('x = ') or '\n' in slot:
        return None

    rhs = slot[4:]

    if pl == 'enclosed':
        return f'x = (\n    {rhs}  # c\n)'

    # backslash continuation before the token that follows SLOT, or before SLOT
    i = rhs.find('SLOT')

    if rhs.startswith("f'") or i < 0:
        return None

    if i + 4 < len(rhs) and rhs[i + 4] == ' ':
        return f'x = {rhs[:i + 4]} \\\n    {rhs[i + 5:]}'

    if i > 0 and rhs[i - 1] == ' ':
        return f'x = {rhs[:i - 1]} \\\n    {rhs[i:]}'

    return None


def execute(case, ctx):
    slot = SLOTS[case['slot']]
    pattern = is_pattern_slot(slot)
    child = (PATTERN_CHILDREN if pattern else EXPR_CHILDREN)[case['child']]
    child_src = layout_child(child, case['cl'], pattern)
    parent_src = layout_parent(slot, case['pl'])
    form = case['form']

    if child_src is None or parent_src is None:
        raise Skip('layout_not_applicable')

    if form != 'src' and case['cl'] == 'split':
        raise Skip('layout_not_applicable')  # node forms carry no layout

    # ---- model
    try:
        base_tree = ast.parse(slot)
        child_ast = parse_child(child, pattern)
    except SyntaxError:
        raise Skip('child_not_parseable_in_category') from None

    found = find_slot(base_tree)

    if found is None:
        raise Skip('slot_not_found')

    pnode, field, idx = found
    old = getattr(pnode, field)[idx] if idx is not None else getattr(pnode, field)
    new = copy.deepcopy(child_ast)

    if isinstance(old, ast.Name):
        if isinstance(old.ctx, (ast.Store, ast.Del)):
            set_ctx(new, type(old.ctx))

    if idx is not None:
        getattr(pnode, field)[idx] = new
    else:
        setattr(pnode, field, new)

    expected = base_tree

    try:
        unp = ast.unparse(expected)
        valid = S(ast.parse(unp)) == S(expected)
    except Exception:
        valid = False

    if not valid and not child.startswith('*'):
        # ast.unparse() is not the only judge (it writes 'with (a, b): pass' for a sole Tuple item, which is two items): the slot text with the
        # parenthesised child substituted must parse to the model tree
        try:
            alt = ast.parse(slot.replace('SLOT', f'({child})'))
            valid = S0(alt) == S0(expected)

            if valid:
                unp = slot.replace('SLOT', f'({child})')
                ctx.count('pair_valid_by_parenthesised_substitution_only')
        except SyntaxError:
            valid = False

    if not valid:
        ctx.count('pair_invalid_by_cpython')

        return

    # does CPython need parentheses here?
    try:
        child_unp = ast.unparse(child_ast)
        needs_pars = f'({child_unp})' in unp and not child_unp.startswith('(')
    except Exception:
        needs_pars = False

    if case.get('occ'):
        # another operand stands in the slot: same path as the placeholder, and it must be exactly that operand there (no regrouping by precedence)
        occ = (PATTERN_OCCUPANTS if pattern else OCCUPANTS)[case['occ']]
        parent_src = parent_src.replace('SLOT', occ.replace('SLOT', 'z'))

        try:
            occ_tree = ast.parse(parent_src)
            occ_ast = parse_child(occ.replace('SLOT', 'z'), pattern)
        except SyntaxError:
            raise Skip('occupant_not_valid_in_slot') from None

        try:
            fresh = ast.parse(slot)
            ppath = path_to(fresh, find_slot(fresh)[0])
            op_ = follow(occ_tree, ppath)
            on_ = getattr(op_, field)[idx] if idx is not None else getattr(op_, field)
        except (AttributeError, IndexError, TypeError, KeyError):
            raise Skip('occupant_regroups_slot') from None

        skeleton = copy.deepcopy(occ_tree)
        sp_ = follow(skeleton, ppath)

        if idx is not None:
            getattr(sp_, field)[idx] = copy.deepcopy(new)
        else:
            setattr(sp_, field, copy.deepcopy(new))

        if not isinstance(on_, ast.AST) or S0(on_) != S0(occ_ast) or S0(skeleton) != S0(expected):
            raise Skip('occupant_regroups_slot')

        occ_found = (op_, field, idx)
        ctx.count(f'occupant:{occ}')

    # ---- pfst
    try:
        root = FST(parent_src, 'exec')
    except Exception as exc:
        raise Skip(f'parent_build_failed:{type(exc).__name__}') from None

    if case.get('occ'):
        lp, lf, li = occ_found
        lp = follow(root.a, path_to(occ_tree, lp))
    else:
        live_found = find_slot(root.a)

        if live_found is None:
            raise Skip('slot_not_found_in_layout')

        lp, lf, li = live_found

    target = (getattr(lp, lf)[li] if li is not None else getattr(lp, lf)).f

    try:
        if form == 'src':
            code = child_src
        elif form == 'ast':
            code = parse_child(child, pattern)

            if case['cl'] != 'bare':
                raise Skip('layout_not_applicable')
        else:
            code = FST(child_src, 'pattern' if pattern else 'expr_all')
    except Skip:
        raise
    except Exception as exc:
        raise Skip(f'child_build_failed:{type(exc).__name__}') from None

    desc = f'{parent_src!r} <- replace SLOT by {form}:{child_src!r} pars={case["pars"]!r}'
    sig = f'{lp.__class__.__name__}.{lf}<-{child_ast.__class__.__name__}'

    try:
        target.replace(code, pars=case['pars'])
    except Exception as exc:
        ctx.count('refused')
        ctx.count(f'refusal:{type(exc).__name__}@{fst_site(exc)}')

        if needs_pars or '\n' in child_src or '\n' in parent_src:
            ctx.count('refused_nontrivial')

        return

    ctx.count('puts_ok')
    src = root.src

    try:
        got = ast.parse(src)
    except SyntaxError as exc:
        raise Violation('C09.unparsable', f'{desc}: result does not parse: {exc!r}\n--- src ---\n{src}', sig) from None

    for t in (got, expected):
        for n in ast.walk(t):
            if isinstance(n, ast.AnnAssign):
                n.simple = 0  # layout dependent flag: a parenthesised simple target (kept by pars=True) is not "simple"

    if S(got) != S(expected):
        raise Violation('C09.grouping', f'{desc}: result parses to a different structure\n--- src ---\n{src}\n--- got ---\n{ast.unparse(got)}\n--- expected ---\n{unp}', sig)

    if needs_pars or '\n' in child_src or '\n' in parent_src:
        ctx.mark_nontrivial(case, {'parent': parent_src, 'child': child_src, 'form': form, 'pars': case['pars'], 'result': src, 'needs_parentheses': needs_pars}
                            if (case['slot'] * 7 + case['child']) % 211 == 0 else None)
