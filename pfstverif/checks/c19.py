"""C19 - coercion yields a valid node of the requested kind with the same content."""

from __future__ import annotations

import ast
import io
import keyword
import tokenize
import typing

from hypothesis import strategies as st

from .. import gen
from ..editmachine import FST
from ..oracle import NoRef, S0, T, first_diff
from ..runner import Skip, Violation, fst_site
from . import c01, c07

import fst as fstmod
from fst.astutil import copy_ast
from fst.parsex import Mode

ID = 'C19'
LEVEL = 'exploration'
TECHNIQUE = ('bounded enumeration of the (operand, target mode) matrix plus Hypothesis-drawn operands; oracles: kind table, CPython parse of the result through embeddings, '
             'token / sub-expression conservation, route agreement (formatted vs pure AST, implicit put vs explicit conversion)')
RULE = ('Operands: every (mode, source) pair harvested from the repository test data (incl. data_coerce), the donor tables of gen.py for every node kind and '
        'layout variants (comments, line breaks inside brackets, redundant parentheses) and long chains (5-component dotted names, 5-way MatchOr / BinOp); targets: the 44 literals of fst.parsex.Mode and every concrete ast class name. '
        'For each pair, via as_(mode, copy=True), as_(mode) on a scratch copy, FST(node, mode) and FST(pure_ast, mode): the call raises or returns a root whose '
        'class satisfies the kind table of the mode, that satisfies the C01 invariant and C07\'s standalone-piece clause (CPython parse through the embedding of '
        'its kind reproduces the tree), whose source re-parses in the requested mode to the same structure, whose NAME (non-keyword) / NUMBER / STRING / f-string '
        'token sequence equals the operand\'s, and in which every maximal non-leaf sub-expression of the operand occurs, in order (targets of pattern kind exempt: '
        'expressions become patterns); if the operand already has the kind, as_() returns the operand itself; copy routes leave the operand\'s source and positioned '
        'dump untouched whether or not they raise; formatted and pure-AST routes that both succeed agree structurally; for 22 (container, slot) templates a put that '
        'coerces gives the same structure as a put of the explicitly converted node (where both succeed), and with coerce=False a put that would need a change of '
        'node class raises and leaves the target untouched. Non-trivial = a successful conversion that changed the root class or the source; distinct by (operand, mode, route).')
ASSUMPTIONS = [
    "every call runs inside FST.options(norm=True): with the default norm=False an emptied Set is documented to be left as the invalid '{}'",
    'an operand whose class already satisfies the requested kind and which comes back unchanged is not required to re-parse in the mode (the property: "returned unchanged"), e.g. a bare Yield asked for as _arglike; the identity clause is applied when the operand source parses in the mode to the same structure',
    'the pure-AST route regenerates source: its leaf sequence is compared by value (1_000 == 1000, implicit concatenation joined) and f-strings are not compared there; MatchSequence delimiters are not in a pure AST, so List and Tuple are identified when comparing the routes',
    "modes 'all' and 'strict' put no constraint on the class of the result; only validity and conservation are checked for them",
    'operands that hit a listed known finding are excluded by construction and counted (discard:excluded_known_finding:*): Tuples with an arglike-only Starred (valid only in a subscript / call), and operands that start with a backslash continuation line',
    'nested MatchOr are spliced before routes are compared: grouping parentheses are not in a pure AST',
    'when one route raises and the other succeeds this is counted, not flagged (the property allows a refusal)',
    'the explicit mode equivalent to a slot is the one documented for the slot (table PUT_SLOTS); pairs where the implicit put treats the operand as one element and the explicit conversion as a sequence are outside the comparison',
]

MODES = [m for m in typing.get_args(typing.get_args(Mode)[0])]
AST_CLASS_NAMES = sorted(n for n, c in vars(ast).items() if isinstance(c, type) and issubclass(c, ast.AST) and c.__subclasses__() == [] and not n.startswith('_')
                         and n not in ('Num', 'Str', 'Bytes', 'NameConstant', 'Ellipsis', 'Index', 'ExtSlice', 'Suite', 'AugLoad', 'AugStore', 'Param', 'slice', 'TypeIgnore',
                                       'FunctionType', 'Load', 'Store', 'Del'))

_X = fstmod  # special container classes live in the fst package


def _special(name):
    for mod in (fstmod, __import__('fst.astutil', fromlist=['x'])):
        if (c := getattr(mod, name, None)) is not None:
            return c

    return None


KIND = {
    'all': None, 'strict': None,
    'exec': ast.Module, 'stmts': ast.Module, 'eval': ast.Expression, 'single': ast.Interactive, 'stmt': ast.stmt,
    'ExceptHandler': ast.ExceptHandler, 'match_case': ast.match_case,
    'expr': ast.expr, 'expr_all': ast.expr, 'expr_arglike': ast.expr, 'expr_slice': ast.expr, 'Tuple_elt': ast.expr, 'Tuple': ast.Tuple,
    '_arglike': (ast.expr, ast.keyword),
    'boolop': ast.boolop, 'operator': ast.operator, 'unaryop': ast.unaryop, 'cmpop': ast.cmpop,
    'comprehension': ast.comprehension, 'arguments': ast.arguments, 'arguments_lambda': ast.arguments, 'arg': ast.arg, 'keyword': ast.keyword,
    'alias': ast.alias, 'Import_name': ast.alias, 'ImportFrom_name': ast.alias, 'withitem': ast.withitem, 'pattern': ast.pattern, 'type_param': ast.type_param,
    '_aliases': '_aliases', '_Import_names': '_aliases', '_ImportFrom_names': '_aliases',
}

for _m in MODES:
    if _m.startswith('_') and _m not in KIND:
        KIND[_m] = _m

PATTERN_KINDS = {'pattern', '_pattern_attrlikes', 'match_case', '_match_cases'} | {n for n in AST_CLASS_NAMES if n.startswith('Match')}
NON_EXPR_KEEPING = PATTERN_KINDS | {'arguments', 'arguments_lambda', 'arg', 'alias', '_aliases', 'Import_name', '_Import_names', 'ImportFrom_name', '_ImportFrom_names',
                                    'type_param', '_type_params', 'TypeVar', 'ParamSpec', 'TypeVarTuple'}


def kind_ok(mode, a):
    k = KIND.get(mode, mode)

    if k is None:
        return True

    if isinstance(k, str):
        if (c := getattr(ast, k, None)) is None:
            c = _special(k)

        if c is None:
            return a.__class__.__name__ == k

        k = c

    return isinstance(a, k)


# ----------------------------------------------------------------------------------------------------------------------
# operands

LAYOUT_OPERANDS = (
    ('expr', '(a,  # one\n b,  # two\n)'), ('expr', '[\n    a,\n    b,  # c\n]'), ('expr', '((a), (b))'), ('expr', '{a,\n b}'), ('expr', 'f(a,\n  b=c)'),
    ('expr', '( a )'), ('expr', 'a if b else c'), ('expr', '{1: a,\n **r}'), ('expr', 'a | b | c'), ('expr', 'a.b.c'), ('expr', 'C(a, b=c)'), ('expr', '-1'), ('expr', '1+2j'),
    ('expr', "'s' 't'"), ('expr', '*a'), ('expr', 'a, *b'), ('expr', '[a, [b, c]]'), ('expr', '(a := b)'), ('expr', 'x[a:b]'), ('expr', 'lambda: a'), ('expr', 'None'),
    ('pattern', '[a,  # c\n b]'), ('pattern', '( a )'), ('pattern', '{1: a,\n **r}'), ('pattern', 'C(a,\n  b=c)'), ('pattern', 'a | (b)'), ('pattern', '[a, [b, *c]]'),
    ('pattern', 'a.b'), ('pattern', '-1'), ('pattern', '_'), ('pattern', 'x as y'),
    ('_arglikes', 'a, *b, k=v, **kw'), ('_arglikes', 'a,  # c\nb'), ('_arglikes', ''), ('arguments', 'a,  # c\n b=1'), ('arguments', 'a, /, b, *, c'), ('arguments', '*a, **b'),
    ('arguments', 'a: int'), ('arguments', ''), ('arg', 'a: int'), ('keyword', '**kw'), ('_withitems', 'a, b as c'), ('_withitems', '(a), (b)'), ('withitem', '(a, b)'),
    ('_Assign_targets', 'a = b ='), ('_Assign_targets', 'a, b = c ='), ('_decorator_list', '@a\n@b(c)'), ('_decorator_list', '@a  # c\n@b'), ('_comprehension_ifs', 'if a if b'),
    ('_comprehension_ifs', 'if a\nif b'), ('_comprehensions', 'for a in b for c in d'), ('_aliases', 'a, b as c'), ('_aliases', 'a.b'), ('_Import_names', 'a.b, c'),
    ('_ImportFrom_names', 'a, b as c'), ('_ImportFrom_names', '*'), ('_type_params', 'T, *U, **V'), ('_type_params', 'T: int'), ('type_param', 'T: int'),
    ('_pattern_attrlikes', 'a, b=c'), ('_pattern_attrlikes', 'a,\nb'), ('_ExceptHandlers', 'except A: pass\nexcept B: pass'), ('_match_cases', 'case 1: pass\ncase _: pass'),
    ('stmt', 'a'), ('stmt', 'a  # c'), ('stmt', 'a = b'), ('stmt', 'if a: b'), ('exec', 'a\nb'), ('exec', 'a'), ('exec', '# c\na  # d\n'), ('exec', ''), ('eval', 'a'), ('single', 'a'),
    ('stmt', '(a,\n b)'), ('stmt', 'import a, b'), ('stmt', 'from a import b, c'), ('stmt', 'with a, b: pass'), ('stmt', 'del a, b'), ('stmt', 'global a, b'),
    ('boolop', 'and'), ('operator', '+'), ('unaryop', 'not'), ('cmpop', 'is not'),
    # long chains: conversions that rebuild a chain element by element (dotted names <-> Attribute chains, MatchOr <-> BinOp) must keep the
    # order for any length, not only for the 1 - 3 components of the short operands above
    ('alias', 'a.b.c.d.e'), ('Import_name', 'a.b.c.d'), ('_aliases', 'a.b.c.d.e, f.g.h.i, j'), ('_Import_names', 'a.b.c.d.e.f, g.h.i.j as k'), ('expr', 'a.b.c.d.e'),
    ('pattern', 'a.b.c.d.e'), ('pattern', 'a | b | c | d | e'), ('expr', 'a | b | c | d | e'), ('pattern', 'm.n.C(a.b.c.d, k=e.f.g.h)'), ('expr', 'a.b.c.d, e.f.g.h.i'),
)


def _operands():
    out = []
    seen = set()

    def add(mode, src):
        if (mode, src) in seen or len(src) > 400 or src.count('\n') > 12:
            return

        seen.add((mode, src))
        out.append((mode, src))

    for mode, src in LAYOUT_OPERANDS:
        add(mode, src)

    # every valid call-argument sequence of up to 4 elements over {name, *starred, k=v, **kw} and the corresponding sequences / parameter lists
    import itertools

    for n in range(1, 5):
        for combo in itertools.product(('N', '*S', 'K=v', '**D'), repeat=n):
            elems = [e.replace('N', f'n{i}').replace('S', f's{i}').replace('K', f'k{i}').replace('D', f'd{i}') for i, e in enumerate(combo)]
            txt = ', '.join(elems)

            try:
                ast.parse(f'f({txt})')
            except SyntaxError:
                continue

            add('_arglikes', txt)

            if all(e[0] in 'n*' and not e.startswith('**') for e in elems):
                add('expr', f'[{txt}]')
                add('expr', f'({txt},)')

            try:
                ast.parse(f'def f({txt}): pass')
                add('arguments', txt)
            except SyntaxError:
                pass

            try:
                ast.parse(f'match _:\n case C({txt}): pass')
                add('_pattern_attrlikes', txt)
            except SyntaxError:
                pass

    for s in ('a, /, b', 'a, /, b=1, *c, d, e=2, **f', '*, k', '*, k=1, j', 'a=1, *, k', 'a, b=2, /, c=3', '*a, b', '*a, b, c=1', 'a, *b, c', 'a: int, *b: str, c: float = 1'):
        add('arguments', s)

    for s in gen.EXPR_DONORS:
        add('expr_all' if s.startswith('*') else 'expr', s)

    for s in gen.STMT_DONORS:
        add('exec' if '\n' in s and not s.startswith(('if', 'for', 'while', 'with', 'try', 'def', 'class', '@', 'match', 'async')) or ';' in s else 'stmt', s)

    for kind, srcs in gen.OTHER_DONORS.items():
        for s in srcs:
            add(kind, s)

    for mode, src in gen.snippets():
        if mode and mode not in ('all', 'strict', '_expr_arglikes'):
            add(mode, src)

    # multi-byte variant of every operand: identifiers and string contents get a non-ASCII suffix (byte columns != character columns)
    for mode, src in list(out):
        v = mb_variant(src)

        if v and v != src:
            add(mode, v)

    return tuple(out)


def mb_variant(src):
    try:
        toks = list(tokenize.generate_tokens(io.StringIO(src).readline))
    except (tokenize.TokenError, IndentationError, SyntaxError):
        return None

    lines = src.split('\n')
    edits = []

    for t in toks:
        if t.type == tokenize.NAME and not keyword.iskeyword(t.string) and t.string not in ('match', 'case', 'type', '_') and not t.string.startswith('__'):
            edits.append((t.end[0] - 1, t.end[1], 'é'))
        elif t.type == tokenize.STRING and t.start[0] == t.end[0] and t.string[-1] in '\'"' and not t.string.lower().startswith(('b', 'rb', 'br')) and len(t.string) >= 2:
            q = 3 if t.string.endswith(t.string[-1] * 3) and len(t.string) >= 6 else 1
            edits.append((t.end[0] - 1, t.end[1] - q, '日'))

    for ln, col, sfx in sorted(edits, reverse=True):
        lines[ln] = lines[ln][:col] + sfx + lines[ln][col:]

    return '\n'.join(lines)


_OPS = None


def operands():
    global _OPS

    if _OPS is None:
        _OPS = _operands()

    return _OPS


TARGETS = tuple(MODES) + tuple(AST_CLASS_NAMES)

# (template source, template mode, navigate to the slot's parent, kind of put, explicit mode, slot class check)
PUT_SLOTS = (
    ('one', '[x]', 'expr', lambda f: f.elts[0], 'expr'),
    ('one', 'f(x)', 'expr', lambda f: f.args[0], 'expr_arglike'),
    ('one', 'x[y]', 'expr', lambda f: f.slice, 'expr_slice'),
    ('one', 'x = y', 'stmt', lambda f: f.value, 'expr'),
    ('one', 'if 1:\n    x', 'stmt', lambda f: f.body[0], 'stmt'),
    ('one', 'match q:\n    case x: pass', 'stmt', lambda f: f.cases[0].pattern, 'pattern'),
    ('one', 'with x: pass', 'stmt', lambda f: f.items[0], 'withitem'),
    ('one', 'def f(x): pass', 'stmt', lambda f: f.args, 'arguments'),
    ('one', 'lambda x: y', 'expr', lambda f: f.args, 'arguments_lambda'),
    ('one', 'import x', 'stmt', lambda f: f.names[0], 'Import_name'),
    ('one', 'from m import x', 'stmt', lambda f: f.names[0], 'ImportFrom_name'),
    ('one', 'f(k=v)', 'expr', lambda f: f.keywords[0], 'keyword'),
    ('one', 'def f(x): pass', 'stmt', lambda f: f.args.args[0], 'arg'),
    ('one', 'class c[T]: pass', 'stmt', lambda f: f.type_params[0], 'type_param'),
    ('slice', '[x, y]', 'expr', (lambda f: f, 'elts'), 'Tuple'),
    ('slice', 'f(x, y)', 'expr', (lambda f: f, '_args'), '_arglikes'),
    ('slice', 'x = y = z', 'stmt', (lambda f: f, 'targets'), '_Assign_targets'),
    ('slice', 'with x, y: pass', 'stmt', (lambda f: f, 'items'), '_withitems'),
    ('slice', 'import x, y', 'stmt', (lambda f: f, 'names'), '_Import_names'),
    ('slice', 'from m import x, y', 'stmt', (lambda f: f, 'names'), '_ImportFrom_names'),
    ('slice', '@x\n@y\nclass c: pass', 'stmt', (lambda f: f, 'decorator_list'), '_decorator_list'),
    ('slice', '[i for i in j if x if y]', 'expr', (lambda f: f.generators[0], 'ifs'), '_comprehension_ifs'),
    ('slice', 'class c[T, U]: pass', 'stmt', (lambda f: f, 'type_params'), '_type_params'),
    ('slice', 'if 1:\n    x\n    y', 'stmt', (lambda f: f, 'body'), 'stmts'),
    ('slice', 'match q:\n    case c(x, y): pass', 'stmt', (lambda f: f.cases[0].pattern, '_attrs'), '_pattern_attrlikes'),
    ('slice', 'match q:\n    case [x, y]: pass', 'stmt', (lambda f: f.cases[0].pattern, 'patterns'), 'MatchSequence'),
)


def params(tier):
    if tier == 'quick':
        return {'examples': 600, 'wall': 200, 'case_timeout': 30, 'slice': 1}

    return {'examples': 30000, 'wall': 700, 'case_timeout': 30, 'slice': 1}


def exhaustive(tier):
    return tier == 'thorough'


def floors(tier):
    return {'distinct_nontrivial': 1500 if tier == 'quick' else 9000}


def enumerate_cases(tier, shard, nshards, seed):
    sl = params(tier)['slice']
    ops = operands()

    for i in range(len(ops)):
        if i % nshards != shard:
            continue

        if sl > 1 and (i * 2654435761 + seed * 40503) % sl:
            continue

        yield {'operand': i, 'row': 'every target mode / class and every put slot'}


def strategy(tier):
    @st.composite
    def strat(draw):
        # drawn operands: donors wrapped in drawn layout (parentheses, comments, line breaks) - sources the tables do not list
        base = draw(st.sampled_from(gen.EXPR_DONORS))
        n = draw(st.integers(0, 3))
        parts = [draw(st.sampled_from(gen.EXPR_DONORS[:60])) for _ in range(n)]
        sep = draw(st.sampled_from([', ', ',\n ', ',  # c\n ', ' , ']))
        shape = draw(st.sampled_from(['plain', 'tuple', 'list', 'set', 'paren', 'call']))

        return {'drawn': {'base': base, 'parts': parts, 'sep': sep, 'shape': shape}, 'target': draw(st.sampled_from(TARGETS)), 'put': draw(st.integers(0, len(PUT_SLOTS) - 1))}

    return strat()


# ----------------------------------------------------------------------------------------------------------------------

LEAF_TOKS = {tokenize.NAME, tokenize.NUMBER, tokenize.STRING, getattr(tokenize, 'FSTRING_START', -1), getattr(tokenize, 'FSTRING_MIDDLE', -1), getattr(tokenize, 'FSTRING_END', -1)}


def leaf_tokens(src):
    out = []

    try:
        for t in tokenize.generate_tokens(io.StringIO(src).readline):
            if t.type in LEAF_TOKS and not (t.type == tokenize.NAME and keyword.iskeyword(t.string)):
                out.append(t.string if t.type != tokenize.STRING else ' '.join(t.string.split()))
    except (tokenize.TokenError, IndentationError, SyntaxError):
        return None

    return out


def leaf_values(src):
    """Value-normalised leaf sequence for the pure-AST route (the source is regenerated, so spelling of literals may change): numbers and
    (implicitly concatenated) strings by value. None if the source has f-strings or cannot be tokenised."""

    out = []
    pend = []

    def flush():
        if pend:
            try:
                out.append(repr(ast.literal_eval(' '.join(pend))))
            except Exception:
                out.append(' '.join(pend))

            pend.clear()

    try:
        for t in tokenize.generate_tokens(io.StringIO(src).readline):
            if t.type == tokenize.STRING:
                pend.append(t.string)

                continue

            if t.type in (tokenize.NL, tokenize.COMMENT, tokenize.NEWLINE, tokenize.INDENT, tokenize.DEDENT):
                continue

            flush()

            if t.type == tokenize.NUMBER:
                try:
                    out.append(repr(ast.literal_eval(t.string)))
                except Exception:
                    out.append(t.string)
            elif t.type == tokenize.NAME and not keyword.iskeyword(t.string):
                out.append(t.string)
            elif t.type in LEAF_TOKS:
                return None

        flush()
    except (tokenize.TokenError, IndentationError, SyntaxError):
        return None

    return out


def pre_exprs(a):
    """expr nodes in pre-order (syntax order is not needed: only relative order of disjoint sub-trees is compared)."""

    out = []
    stack = [a]

    while stack:
        n = stack.pop()

        if isinstance(n, ast.expr):
            out.append(n)

        stack.extend(reversed(list(ast.iter_child_nodes(n))))

    return out


def is_leafish(e):
    if isinstance(e, (ast.Name, ast.Constant)):
        return True

    if isinstance(e, ast.Attribute):
        return is_leafish(e.value) and not isinstance(e.value, ast.Constant)

    if isinstance(e, ast.Starred):
        return is_leafish(e.value)

    if isinstance(e, ast.UnaryOp) and isinstance(e.op, ast.USub):
        return isinstance(e.operand, ast.Constant)

    if isinstance(e, ast.BinOp) and isinstance(e.op, (ast.Add, ast.Sub)):  # complex literals
        return isinstance(e.right, ast.Constant) and isinstance(e.right.value, complex) and is_leafish(e.left)

    return False


def maximal_subexprs(a):
    """Top-most expr nodes strictly below the root which are not leaf-like."""

    out = []

    while True:  # a statement / module wrapper around one expression: that expression is the effective root
        if isinstance(a, (ast.Module, ast.Interactive)) and len(a.body) == 1 and isinstance(a.body[0], ast.Expr):
            a = a.body[0].value
        elif isinstance(a, (ast.Expr, ast.Expression)):
            a = a.value if isinstance(a, ast.Expr) else a.body
        elif isinstance(a, ast.withitem) and a.optional_vars is None:
            a = a.context_expr
        else:
            break

    def rec(n, top):
        for c in ast.iter_child_nodes(n):
            if isinstance(c, ast.expr):
                if not is_leafish(c):
                    out.append(c)
                # do not descend: maximal
            else:
                rec(c, False)

    rec(a, True)

    return out


def check_result(r, mode, op_src, op_a, ctx, desc, site):
    if not isinstance(r, FST):
        raise Violation('C19.not_fst', f'{desc}: returned {type(r).__name__}', f'not_fst:{site}')

    if not r.is_root:
        raise Violation('C19.not_root', f'{desc}: result is not a standalone root', f'not_root:{site}')

    a = r.a

    if not kind_ok(mode, a):
        raise Violation('C19.kind', f'{desc}: result is a {a.__class__.__name__}, not of the requested kind', f'kind:{site}:{a.__class__.__name__}')

    try:
        if isinstance(a, ast.alias) and '\n' in r.src.strip():
            ctx.count('observed:multiline_alias_result_not_validated_by_cpython')  # 'a.\n b' has no CPython embedding without changing the text
        else:
            c01.check_invariant(r, None, 'C19.c01')
    except NoRef:
        pass  # special containers: validated by check_piece below through the C05 embeddings
    except Violation as v:
        raise Violation('C19.c01', f'{desc}: result violates C01: {v.msg[:600]}', f'c01:{site}:{v.sig}') from None

    try:
        if not (isinstance(a, ast.alias) and '\n' in r.src.strip()):
            c07.check_piece(r, ctx, desc, f'piece:{site}')
    except Violation as v:
        raise Violation('C19.valid', v.msg[:900], f'valid:{site}') from None

    # re-parse in the requested mode
    try:
        again = FST(r.src, mode)
    except Exception as exc:
        if kind_ok(mode, op_a) and r.src == op_src:
            ctx.count('observed:operand_of_kind_returned_unchanged_though_not_parsable_in_mode')  # e.g. Yield 'yield' as '_arglike': "already has the requested kind"

            return

        raise Violation('C19.reparse', f'{desc}: result source does not parse in the requested mode: {exc!r}\n--- result ---\n{r.src[:400]}', f'reparse:{site}') from None

    if KIND.get(mode, mode) is not None and c07.norm_dump(again.a) != c07.norm_dump(a):
        if kind_ok(mode, op_a) and r.src == op_src:
            ctx.count('observed:operand_of_kind_returned_unchanged_though_not_parsable_in_mode')  # e.g. unparenthesised Tuple 'a ,' as '_arglike'

            return

        raise Violation('C19.reparse', f'{desc}: result source parses in the requested mode to a different structure {first_diff(c07.norm_dump(a), c07.norm_dump(again.a))}'
                        f'\n--- result ---\n{r.src[:400]}', f'reparse_differs:{site}')

    # conservation
    if site.startswith('FST(ast)'):
        t0, t1 = leaf_values(op_src), leaf_values(r.src)

        if t0 is None or t1 is None:
            ctx.count('pure_ast_route_fstring_tokens_not_compared')
        else:
            t0, t1 = sorted(t0), sorted(t1)  # positional and keyword arguments are separate lists in a pure AST: their interleaving is not recoverable
    else:
        t0, t1 = leaf_tokens(op_src), leaf_tokens(r.src)

    if t0 is not None and t1 is not None and t0 != t1:
        raise Violation('C19.tokens', f'{desc}: leaf token sequence changed\n operand: {t0[:30]}\n result:  {t1[:30]}\n--- result ---\n{r.src[:300]}', f'tokens:{site}')

    if mode not in NON_EXPR_KEEPING and not isinstance(a, (ast.pattern, ast.match_case)) and not isinstance(op_a, (ast.pattern, ast.match_case)):
        want = [c07.norm_dump(e) for e in maximal_subexprs(op_a)]
        have = [c07.norm_dump(e) for e in pre_exprs(a)]
        j = 0

        for w in want:
            try:
                j = have.index(w, j) + 1
            except ValueError:
                raise Violation('C19.subexpr', f'{desc}: sub-expression {w[:120]} of the operand does not occur (in order) in the result\n--- result ---\n{r.src[:300]}',
                                f'subexpr:{site}') from None


def parses_same(src, mode, a):
    try:
        return c07.norm_dump(FST(src, mode).a) == c07.norm_dump(a)
    except Exception:
        return False


def flat_dump(a):
    """norm_dump with nested MatchOr spliced into their parent (a | (b | c) == a | b | c): the pure-AST route cannot know about grouping parentheses."""

    try:
        b = copy_ast(a)
    except Exception:
        return c07.norm_dump(a)

    for n in ast.walk(b):
        if isinstance(n, ast.MatchOr):
            changed = True

            while changed:
                changed = False
                new = []

                for p in n.patterns:
                    if isinstance(p, ast.MatchOr):
                        new.extend(p.patterns)
                        changed = True
                    else:
                        new.append(p)

                n.patterns = new

    return c07.norm_dump(b)


def domain_excluded(base, src):
    """Operands outside the domain (counted): significant tokens outside the root node (a trailing ',' after a '_arglike' ...), or an arg whose
    annotation is only valid for a vararg."""

    a = base.a

    if isinstance(a, ast.arg) and isinstance(a.annotation, ast.Starred):
        return 'arg_with_starred_annotation'

    if hasattr(a, 'lineno') and not a.__class__.__name__.startswith('_') and not isinstance(a, (ast.arguments,)):
        try:
            loc = base.pars()
        except Exception:
            loc = None

        if loc:
            lines = src.split('\n')
            ln, col, end_ln, end_col = loc[:4]
            inside = '\n'.join([lines[ln][col:]] + lines[ln + 1:end_ln] + [lines[end_ln][:end_col]]) if end_ln > ln else lines[ln][col:end_col]
            sig = lambda t: [x for x in t if x is not None]

            try:
                all_toks = [s_ for typ, s_ in __import__('pfstverif.oracle', fromlist=['K']).K(src, comments=False)]
                in_toks = [s_ for typ, s_ in __import__('pfstverif.oracle', fromlist=['K']).K(inside, comments=False)]
            except Exception:
                return None

            if len(all_toks) != len(in_toks):
                return 'tokens_outside_root_node'

    return None


def known_excluded(mode_src, src, op_a):
    """Operands excluded by construction because they hit a listed known finding (counted; the finding itself is replayed by the runner)."""

    if isinstance(op_a, ast.Tuple) and any(isinstance(e, ast.Starred) for e in op_a.elts):
        try:
            ast.parse(f'(\n{src}\n)', mode='eval')
        except SyntaxError:
            return 'C19-arglike-only-starred-tuple-to-stmt'

    first = src.lstrip(' \t')

    if first.startswith('\\\n'):
        return 'C19-leading-continuation-operand'

    return None


def snapshot(f):
    if f.a is None:
        return ('<operand destroyed>', None)

    try:
        return f.src, T(f.a)
    except Exception as exc:
        return ('<operand unusable>', repr(exc))


def run_pair(mode_src, src, target, ctx, do_put=None):
    try:
        base = FST(src, mode_src)
    except Exception:
        raise Skip('operand_rejected') from None

    if not isinstance(base.a, ast.AST):
        raise Skip('operand_not_ast')

    if src.rstrip(' \t\n').endswith('\\'):
        raise Skip('domain:operand_ends_with_continuation')  # C01-dangling-continuation-eof family, not re-reported here

    op_src = base.src
    op_a = base.a

    if (why := known_excluded(mode_src, src, op_a)) and not NO_EXCLUDE[0]:
        raise Skip(f'excluded_known_finding:{why}')

    if why := domain_excluded(base, src):
        raise Skip(f'domain:{why}')

    if target == '_Assign_targets' and '#' in src and not NO_EXCLUDE[0]:
        raise Skip('excluded_known_finding:C19-assign-targets-trailing-comment-line')
    op_cls = op_a.__class__.__name__
    desc0 = f'{op_cls} {op_src[:80]!r} (parsed as {mode_src!r}) -> {target!r}'
    snap = snapshot(base)
    results = {}
    ctx.count('pairs')

    # route 1: as_(copy=True) -- operand must stay intact
    for route in ('as_copy', 'FST(node)', 'as_inplace', 'FST(ast)'):
        desc = f'{route}: {desc0}'
        site = f'{route}:{op_cls}->{target}'

        try:
            if route == 'as_copy':
                r = base.as_(target, copy=True)
            elif route == 'FST(node)':
                r = FST(base, target)
            elif route == 'as_inplace':
                scratch = base.copy()
                r = scratch.as_(target)
            else:
                try:
                    pure = copy_ast(op_a)
                except Exception:
                    ctx.count('pure_ast_copy_failed')

                    continue

                r = FST(pure, target)
        except (fstmod.NodeError, ValueError, SyntaxError, NotImplementedError) as exc:
            ctx.count(f'refused:{route}')
            results[route] = None
            r = None
        except Exception as exc:
            raise Violation('C19.raise', f'{desc}: raised {exc!r}', f'raise:{type(exc).__name__}@{fst_site(exc)}') from None

        if route in ('as_copy', 'FST(node)'):
            if snapshot(base) != snap:
                raise Violation('C19.operand_touched', f'{desc}: the operand changed (copy route){" although the call raised" if r is None else ""}: {base.src[:200]!r}',
                                f'operand_touched:{site}')

            if r is base and route == 'FST(node)' and target is not None:
                pass  # FST(node, mode) defaults to copy=True but may return... checked below

        if r is None:
            continue

        ctx.count(f'converted:{route}')

        if route == 'as_inplace' and kind_ok(target, op_a) and KIND.get(target, target) is not None and parses_same(op_src, target, op_a):
            if r is not scratch:
                raise Violation('C19.identity', f'{desc}: operand already has the requested kind but as_() did not return it unchanged', f'identity:{site}')

            if snapshot(r) != snap:
                raise Violation('C19.identity', f'{desc}: operand already has the requested kind but was changed: {r.src[:200]!r}', f'identity_changed:{site}')

        check_result(r, target, op_src, op_a, ctx, desc, site)
        results[route] = flat_dump(r.a)

        if any(isinstance(n, ast.MatchSequence) for n in ast.walk(op_a)):  # delimiters of a MatchSequence are not in a pure AST: [x] vs (x,)
            results[route] = results[route].replace('List(', 'Tuple(')

        if r.a.__class__ is not op_a.__class__ or r.src != op_src:
            ctx.mark_nontrivial((mode_src, src, target, route), {'operand': op_src[:120], 'operand_kind': op_cls, 'mode': target, 'route': route, 'result_kind': r.a.__class__.__name__,
                                                                 'result': r.src[:120]} if (hash((src, target)) % 211) == 0 else None)

    ok = {k: v for k, v in results.items() if v is not None}

    if len(set(ok.values())) > 1:
        ks = sorted(ok)
        a_, b_ = next((x, y) for x in ks for y in ks if ok[x] != ok[y])

        raise Violation('C19.routes', f'{desc0}: routes {a_} and {b_} give different structures {first_diff(ok[a_], ok[b_])}', f'routes:{a_}/{b_}:{op_cls}->{target}')

    if results and len(ok) != len(results) and ok:
        ctx.count('observed:routes_disagree_on_refusal')


def run_put(mode_src, src, slot_i, ctx):
    kind, tsrc, tmode, nav, explicit = PUT_SLOTS[slot_i]

    try:
        operand = FST(src, mode_src)
    except Exception:
        raise Skip('operand_rejected') from None

    if src.rstrip(' \t\n').endswith('\\'):
        raise Skip('domain:operand_ends_with_continuation')

    op_cls = operand.a.__class__.__name__
    desc0 = f'put[{kind}] of {op_cls} {operand.src[:80]!r} into {tsrc!r} (slot kind {explicit!r})'
    site = f'put:{kind}:{explicit}:{op_cls}'

    def do(tgt, code, **opts):
        if kind == 'one':
            nav(tgt).replace(code, **opts)
        else:
            f, field = nav
            f(tgt).put_slice(code, 0, 1, field, **opts)

    snap_op = snapshot(operand)
    outs = {}

    # implicit
    tA = FST(tsrc, tmode)

    try:
        do(tA, operand.copy())
        outs['implicit'] = c07.norm_dump(tA.a)
    except (fstmod.NodeError, ValueError, SyntaxError, NotImplementedError):
        outs['implicit'] = None
    except Exception as exc:
        raise Violation('C19.raise', f'{desc0}: implicit put raised {exc!r}', f'raise:{type(exc).__name__}@{fst_site(exc)}') from None

    # explicit
    tB = FST(tsrc, tmode)

    try:
        conv = operand.as_(explicit, copy=True)
    except (fstmod.NodeError, ValueError, SyntaxError, NotImplementedError):
        conv = None
    except Exception as exc:
        raise Violation('C19.raise', f'{desc0}: explicit conversion raised {exc!r}', f'raise:{type(exc).__name__}@{fst_site(exc)}') from None

    if snapshot(operand) != snap_op:
        raise Violation('C19.operand_touched', f'{desc0}: as_(copy=True) changed the operand', f'operand_touched:{site}')

    if conv is not None:
        try:
            do(tB, conv)
            outs['explicit'] = c07.norm_dump(tB.a)
        except (fstmod.NodeError, ValueError, SyntaxError, NotImplementedError):
            outs['explicit'] = None
        except Exception as exc:
            raise Violation('C19.raise', f'{desc0}: put of the converted node raised {exc!r}', f'raise:{type(exc).__name__}@{fst_site(exc)}') from None
    else:
        outs['explicit'] = None

    ctx.count('puts')

    if outs['implicit'] is not None and outs['explicit'] is not None:
        ctx.count('puts_both_ok')

        if outs['implicit'] != outs['explicit']:
            raise Violation('C19.put_equiv', f'{desc0}: implicit coercion on put and put of as_({explicit!r}) differ {first_diff(outs["implicit"], outs["explicit"])}\n'
                            f' implicit: {tA.src[:200]!r}\n explicit: {tB.src[:200]!r}', f'put_equiv:{site}')

        for t in (tA, tB):
            try:
                c01.check_invariant(t, None, 'C19.c01')
            except Violation as v:
                raise Violation('C19.c01', f'{desc0}: target violates C01 after the put: {v.msg[:600]}', f'c01_put:{site}') from None

        if tA.src != FST(tsrc, tmode).src:
            ctx.mark_nontrivial(('put', mode_src, src, slot_i), {'operand': operand.src[:100], 'operand_kind': op_cls, 'slot': tsrc, 'explicit_mode': explicit, 'after': tA.src[:160]}
                                if (hash((src, slot_i)) % 53) == 0 else None)
    elif outs['implicit'] is not None or outs['explicit'] is not None:
        ctx.count('observed:put_routes_disagree_on_refusal')

    # coercion disabled: a put that needs a different node class must raise and change nothing
    if outs['implicit'] is not None and conv is not None and conv.a.__class__ is not operand.a.__class__:
        tC = FST(tsrc, tmode)
        snapC = snapshot(tC)

        try:
            do(tC, operand.copy(), coerce=False)
        except (fstmod.NodeError, ValueError, SyntaxError, NotImplementedError):
            ctx.count('coerce_false_refused')

            if snapshot(tC) != snapC:
                raise Violation('C19.coerce_false', f'{desc0}: coerce=False raised but the target changed: {tC.src[:200]!r}', f'coerce_false_changed:{site}')
        except Exception as exc:
            raise Violation('C19.raise', f'{desc0}: coerce=False put raised {exc!r}', f'raise:{type(exc).__name__}@{fst_site(exc)}') from None
        else:
            ctx.count('observed:coerce_false_accepted')


def drawn_source(d):
    items = [d['base']] + d['parts']

    if any(i.startswith('*') or i in ('yield', 'yield a', 'yield from a', 'x := 1') or 'lambda' in i for i in items) and d['shape'] != 'plain':
        items = [i for i in items if not (i.startswith('*') or i.startswith('yield') or i == 'x := 1' or 'lambda' in i)] or ['x']

    body = d['sep'].join(items)

    return {'plain': items[0], 'tuple': f'({body},)', 'list': f'[{body}]', 'set': '{' + body + '}', 'paren': f'(\n{items[0]}\n)', 'call': f'f({body})'}[d['shape']]


NO_EXCLUDE = [False]


def execute(case, ctx):
    NO_EXCLUDE[0] = bool(case.get('no_exclude'))

    with FST.options(norm=True):  # documented: without norm an emptied Set is left as the invalid '{}' on purpose
        _execute(case, ctx)


def _execute(case, ctx):
    if 'operand' in case or 'op' in case:
        mode_src, src = case['op'] if 'op' in case else operands()[case['operand']]

        if case.get('row'):
            for target in TARGETS:
                run_pair(mode_src, src, target, ctx)

            for i in range(len(PUT_SLOTS)):
                try:
                    run_put(mode_src, src, i, ctx)
                except Skip:
                    pass

            return

        if 'target' in case:
            run_pair(mode_src, src, case['target'], ctx)

        if 'put' in case:
            run_put(mode_src, src, case['put'], ctx)

        return

    src = drawn_source(case['drawn'])

    try:
        ast.parse(f'(\n{src}\n)', mode='eval')
    except SyntaxError:
        raise Skip('drawn_operand_invalid') from None

    run_pair('expr', src, case['target'], ctx)
    run_put('expr', src, case['put'], ctx)


SHRINK_TRUSTED = True  # candidates are strictly narrower (one cell of a matrix row) although their JSON may be longer


def shrinks(case):
    """Enumerated cases: narrow an all-targets case to single (operand, target) / (operand, put) cases."""

    if case.get('row'):
        op = list(operands()[case['operand']])

        for t in TARGETS:
            yield {'op': op, 'target': t}

        for i in range(len(PUT_SLOTS)):
            yield {'op': op, 'put': i}

    elif 'drawn' in case:
        src = drawn_source(case['drawn'])

        yield {'op': ['expr', src], 'target': case['target']}
        yield {'op': ['expr', src], 'put': case['put']}
