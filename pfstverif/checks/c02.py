"""C02 - an edited tree is observationally identical to a fresh parse of its own source."""

from __future__ import annotations

import ast

from .. import editmachine as em
from ..editmachine import FST
from ..runner import Skip, Violation
from . import c01

ID = 'C02'
LEVEL = 'exploration'
TECHNIQUE = 'stateful property-based testing; differential oracle: edited tree vs. tree freshly built from the same source'
RULE = ('C01-style edit sequences interleaved with read-only query batches (mode drawn per step: none / locations / pars / '
        'own_src+navigation / everything) that populate per-node caches BEFORE the edit. After every successful edit a fresh '
        'FST is built from root.src and, node by node along equal AST paths, the observation vector (type, loc, bloc, '
        'pars(shared=True/False), lineno..end_col_offset, src, own_src, pfield, parent, is_root, next/prev/first_child/last_child/'
        'last_header_child/step_fwd/step_back targets, view lengths and element identities incl. virtual fields, has_docstr, '
        'get_docstr, is_elif, is_parenthesized_tuple, is_delimited_matchseq, is_except_star, is_empty_arguments, type predicates) '
        'must be equal. The root object must keep its identity; handles captured at the start are either dead or still '
        'reachable at child_path. Non-trivial = a successful edit after which >= 1 observation that had been cached before '
        'the edit on a surviving node has a different value in the fresh tree (an invalidation was required); distinct by '
        '(case, step).')
ASSUMPTIONS = [
    'the fresh tree (never queried before) is the reference; its own correctness is the business of C05/C06',
    'comparison is along equal AST paths, so it presupposes C01 structure equality (a C01 failure ends the case, reported by C01)',
] + c01.ASSUMPTIONS[:3]


def params(tier):
    if tier == 'quick':
        return {'examples': 1500, 'wall': 120, 'case_timeout': 30, 'max_steps': 6}

    return {'examples': 6000, 'wall': 600, 'case_timeout': 60, 'max_steps': 15}


def floors(tier):
    return {'distinct_nontrivial': 50 if tier == 'quick' else 1000}


def strategy(tier):
    from hypothesis import strategies as st

    @st.composite
    def strat(draw):
        case = draw(em.case_strategy(max_steps=params(tier)['max_steps'], max_lines=30))

        for step in case['steps']:
            step['qmode'] = draw(st.integers(0, 4))
            step['qsel'] = draw(st.integers(0, 1 << 20))

            if step['op'] in em.NODE_OPS and draw(st.integers(0, 6)) == 0:
                step['op'] = draw(st.sampled_from(em.PAR_OPS))  # par() / unpar(): edits too, and they touch the source without going through a put

        return case

    return strat()


PREDICATES = ('is_elif', 'is_parenthesized_tuple', 'is_delimited_matchseq', 'is_except_star', 'is_empty_arguments')
NAV = ('next', 'prev', 'first_child', 'last_child', 'last_header_child', 'step_fwd', 'step_back')
TYPE_PREDS = ('is_mod', 'is_stmt', 'is_expr', 'is_stmtlike', 'is_block', 'is_scope', 'is_named_scope', 'is_Name', 'is_Call', 'is_If',
              'is_FunctionDef', 'is_Tuple', 'is_Constant')


def _safe(fn):
    try:
        return fn()
    except Exception as exc:
        return f'<raises {type(exc).__name__}>'


def index_map(root):
    nodes = [root.a] + [n for n, _, _, _ in em.iter_nodes(root.a)]

    return nodes, {id(n): i for i, n in enumerate(nodes)}


def observe(f, idx, kinds):
    """Observation dict of one FST node. `idx` maps id(ast) -> DFS index so that navigation results are comparable
    across trees."""

    def ref(g):
        if g is None or g is False:
            return g

        return idx.get(id(g.a), '<foreign>')

    o = {}

    if 'loc' in kinds:
        o['type'] = f.a.__class__.__name__
        o['loc'] = _safe(lambda: tuple(f.loc) if f.loc else None)
        o['bloc'] = _safe(lambda: tuple(f.bloc) if f.bloc else None)
        o['astpos'] = _safe(lambda: (f.lineno, f.col_offset, f.end_lineno, f.end_col_offset))
        o['has_own_loc'] = _safe(lambda: f.has_own_loc)

    if 'pars' in kinds:
        o['pars'] = _safe(lambda: (tuple(p), p.n) if (p := f.pars()) else None)
        o['pars_ns'] = _safe(lambda: (tuple(p), p.n) if (p := f.pars(shared=False)) else None)

    if 'src' in kinds:
        o['src'] = _safe(lambda: f.src)
        o['own_src'] = _safe(lambda: f.own_src())
        o['own_src_nodoc'] = _safe(lambda: f.own_src(docstr=False))

    if 'nav' in kinds:
        o['pfield'] = _safe(lambda: tuple(f.pfield) if f.pfield else None)
        o['parent'] = _safe(lambda: ref(f.parent))
        o['is_root'] = f.is_root
        o['root'] = _safe(lambda: ref(f.root))

        for name in NAV:
            o[name] = _safe(lambda: ref(getattr(f, name)()))

        o['has_docstr'] = _safe(lambda: f.has_docstr)
        o['docstr'] = _safe(lambda: f.get_docstr())

        for name in PREDICATES:
            o[name] = _safe(lambda: getattr(f, name)())

        for name in TYPE_PREDS:
            o[name] = _safe(lambda: getattr(f, name))

        a = f.a

        for field in a._fields:
            v = getattr(a, field, None)

            if isinstance(v, list):
                o[f'view:{field}'] = _safe(lambda: [ref(e) if isinstance(e, FST) else repr(e)[:40] for e in getattr(f, field)])
                o[f'len:{field}'] = _safe(lambda: len(getattr(f, field)))

        for vf in em.VIRTUAL_FIELDS.get(a.__class__.__name__, ()):
            o[f'vlen:{vf}'] = _safe(lambda: len(getattr(f, vf)))
            o[f'vsrc:{vf}'] = _safe(lambda: [e.src if hasattr(e, 'src') else repr(e)[:40] for e in getattr(f, vf)])

    return o


ALL_KINDS = ('loc', 'pars', 'src', 'nav')
QMODES = {0: (), 1: ('loc',), 2: ('pars',), 3: ('src', 'nav'), 4: ALL_KINDS}


def compare_with_fresh(root, ap, cached, ctx):
    """`cached` = {id(ast): obs dict taken before the edit} for the pre-query batch."""

    src = root.src

    try:
        fresh = FST(src, 'exec')
    except Exception as exc:
        raise Skip(f'fresh_build_failed:{type(exc).__name__}') from None

    nodes, idx = index_map(root)
    fnodes, fidx = index_map(fresh)

    if len(nodes) != len(fnodes) or any(a.__class__ is not b.__class__ for a, b in zip(nodes, fnodes)):
        ctx.count('structure_differs_from_fresh(reported by C01)')

        return None

    invalidated = False
    site = f'{ap.op}:{ap.parent_cls}.{ap.field}'

    for a, b in zip(nodes, fnodes):
        if isinstance(a, ast.expr_context):
            continue

        oa = observe(a.f, idx, ALL_KINDS)
        ob = observe(b.f, fidx, ALL_KINDS)

        if oa != ob:
            for k in oa:
                if oa[k] != ob.get(k):
                    raise Violation('C02.observation', f'after {ap.desc}: {a.__class__.__name__} (dfs #{idx[id(a)]}) query {k}: edited tree says '
                                    f'{oa[k]!r}, fresh tree says {ob.get(k)!r}\n--- src ---\n{src[:1200]}', f'{k.split(":")[0]}:{site}')

        if not invalidated and (c := cached.get(id(a))):
            invalidated = any(c[k] != oa[k] for k in c if k in oa)

    return invalidated


PAR_TEMPLATES = ('x = a if(b)else c', 'y = (a)+(b) * ((c))', 'z = [(a), (b,), ((c, d))]', 'f((a), k=(v))', 'w = not(p)and(q)', 'for(i)in(j): pass', 'r = (a,\n     b)', 'del(a), (b)',
                 'with(a)as(b): pass', 'r = x[(i)]', 'r = {(k): (v)}', 'assert(a), (b)', 'r = lambda: (y)', 'r = (yield(a))', 'r = -(a) ** (b)', 'match(s):\n    case(1): pass',
                 'r = a if b else(c)', 'r = [i for(i)in(j)if(k)]', "r = f'{(a)}'", 'r = (a)if(b)else(c)if(d)else(e)')


def enumerate_cases(tier, shard, nshards, seed):
    """Every node of the parenthesis templates x {par, par(force), unpar, unpar(node)} with every query mode beforehand, then a second edit
    (replace by a name) on every node: stale parenthesis extents show when the next query or edit uses them."""

    k = 0

    for src in PAR_TEMPLATES:
        try:
            n = len(em.node_targets(ast.parse(src)))
        except SyntaxError:
            continue

        for ti in range(n):
            for op in em.PAR_OPS:
                for qmode in (1, 4):
                    k += 1

                    if k % nshards != shard:
                        continue

                    base = {'tsel': ti, 'form': 'src', 'dsel': 0, 'opts': {}, 'anycat': False, 'layout': [], 'qsel': 0}

                    yield {'src': src, 'steps': [{**base, 'op': op, 'qmode': qmode}, {**base, 'op': 'replace', 'qmode': qmode}], 'grid': True}

    # single edits (replace / remove / cut / line comments / primitive puts) and two-step histories on the trivia-dense programs with every query
    # made before each edit: every node's caches are populated, so an edit that forgets to flush an ancestor or a sibling shows in the comparison
    from .. import gen

    for case in em.single_edit_grid(gen.TRIVIA_PROGRAMS + gen.FSTRING_PROGRAMS, tier, shard, nshards, seed, n_expr=3, line_comments=True, cut=True, thin=3 if tier == 'quick' else 1):
        for st_ in case['steps']:
            st_.update(qmode=4, qsel=0)

        yield case

    for case in em.slice_edit_grid(gen.TRIVIA_PROGRAMS, tier, shard, nshards, seed, optsets=({},), thin=2 if tier == 'quick' else 1):
        st0 = {**case['steps'][0], 'qmode': 4, 'qsel': 0}
        # a second slice edit on the same container after the first: positions computed from a stale cached location go wrong here
        yield {**case, 'steps': [st0, {**st0, 'op': 'append', 'dsel': 1}]}

    for case in em.ancestor_two_step_grid(gen.TRIVIA_PROGRAMS, tier, shard, nshards, seed, thin=3 if tier == 'quick' else 1):
        for st_ in case['steps']:
            st_.update(qmode=4, qsel=0)

        yield case


def execute(case, ctx):
    if (why := c01.excluded(case['src'])) and not case.get('no_exclude'):
        raise Skip(f'excluded_known_finding:{why}')

    try:
        root = FST(case['src'], 'exec')
    except Exception as exc:
        raise Skip(f'build_failed:{type(exc).__name__}') from None

    root_id = id(root)
    handles = [n.f for n, _, _, _ in em.iter_nodes(root.a) if not isinstance(n, ast.expr_context)][::3][:40]

    for i, step in enumerate(case['steps']):
        # read-only query batch before the edit (populates caches)
        kinds = QMODES[step.get('qmode', 0)]
        cached = {}

        if kinds:
            nodes, idx = index_map(root)
            sel = step.get('qsel', 0)

            for j, n in enumerate(nodes):
                if isinstance(n, ast.expr_context) or (sel >> (j % 20)) & 1:
                    continue

                cached[id(n)] = observe(n.f, idx, kinds)

            ctx.count(f'prequery_mode:{step.get("qmode", 0)}')

        before = root.src

        try:
            ap = em.apply_step(root, step, c01.BASE_OPTS)
        except em.StepSkipped as s:
            ctx.count(f'step_skipped:{s.reason}')

            continue

        if ap.raised:
            ctx.count('steps_raised')

            if root.src != before:
                return

            continue

        ctx.count('steps_ok')

        if id(ap and root) != root_id or root.a.f is not root or not root.is_root:
            raise Violation('C02.root_identity', f'after {ap.desc}: root identity / linkage changed', f'root:{ap.op}')

        try:
            c01.check_invariant(root, ap, 'C02.pre')
        except Violation:
            ctx.count('c01_violation(reported by C01)')

            return

        invalidated = compare_with_fresh(root, ap, cached, ctx)

        if invalidated is None:
            return

        # long-lived handles

        for h in handles:
            if h.a is None:
                continue

            if _safe(lambda: h.root) is not root:
                # a node that left the tree alive (e.g. cut piece) is its own root or in another tree: allowed if not reachable
                continue

            path = _safe(lambda: root.child_path(h))
            back = _safe(lambda: root.child_from_path(path)) if not isinstance(path, str) or not path.startswith('<raises') else path

            if back is not h:
                raise Violation('C02.handle', f'after {ap.desc}: live handle {h!r} claims root but child_from_path(child_path(h)) gives {back!r}',
                                f'handle:{ap.op}:{ap.parent_cls}.{ap.field}')

        if invalidated:
            ctx.mark_nontrivial([case['src'], case['steps'][:i + 1]], {'src': case['src'][:300], 'step': ap.desc, 'prequery': kinds})
