"""C03 - edits follow Python container semantics and change nothing else in the tree."""

from __future__ import annotations

import ast
import copy

from hypothesis import strategies as st

from .. import editmachine as em
from .. import gen
from ..editmachine import FST
from ..oracle import S, S0, S_fblank
from ..runner import Skip, Violation, fst_site
from . import c01, c04, c05, c07

ID = 'C03'
LEVEL = 'exploration'
TECHNIQUE = 'model-based property-based testing: Python list semantics applied to a pure ast.parse copy is the reference; metamorphic entry-point / layout / index-form agreement'
RULE = ('For Hypothesis-drawn (program, list-like container incl. virtual fields and empty optional blocks, start, stop or index in '
        '-7..7 / \'end\', new code of the element kind allowed there with 0-3 elements in src / AST / FST form): '
        '(model) reference = old[:start] + new + old[stop:] with CPython slice normalisation applied to the pure ast.parse tree '
        '(for plain list fields the whole expected tree is built, unparsed and re-parsed by CPython; for virtual fields the element '
        'signature list is compared and the rest of the tree with the container masked must be unchanged); single element put / '
        'delete changes exactly one position (delete in Dict.keys style fields means None); '
        '(entry points) the same request through put_slice, put(one=False), view slice assignment / deletion, attribute '
        'assignment for whole fields, insert / append / extend / prepend / prextend, view.replace / remove gives identical source, and so does '
        'the request written relative to three drawn sub-views view[a:b] (a <= start, stop <= b) through the sub-view\'s own insert (non-negative, '
        'negative and below-range index, \'end\') / extend / prextend / slice assignment / slice deletion / replace / remove; '
        '(layout) the same request on a layout-mutated variant of the program gives the same structure; (index forms) i, i-n and '
        '\'end\' agree; (refusal) if the model result is valid Python (survives unparse->parse) a raise is a violation unless it is '
        'NotImplementedError, a norm refusal to empty a required field, or a documented ordering rule. Reversed bounds: Python '
        'inserts at start, pfst documents IndexError; both accepted. Non-trivial = the operation changes the length, uses a negative / '
        'out-of-range / \'end\' bound, a virtual field, or a container spread over several lines; distinct by full case.')
ASSUMPTIONS = [
    'element kinds per container and their CPython embeddings come from the tables in editmachine.SLICE_DONORS and c05.WRAPPERS',
    'source-form puts use undelimited element lists so that the documented "delimiters mean one element" rule never applies; one=False everywhere',
    'the refusal clause is applied to plain AST list fields only (for virtual fields validity of the model result is not decidable by a simple unparse)',
] + c01.ASSUMPTIONS[:1]

PLAIN_KINDS = {'stmts', 'exprs', 'handlers', 'cases', 'decorator_list', 'Assign.targets', 'generators', 'ifs', 'Import.names', 'ImportFrom.names', 'items',
               'keywords', 'Call.args', 'type_params', 'MatchSequence.patterns', 'MatchOr.patterns', 'MatchClass.patterns', 'BoolOp.values', 'Delete.targets'}
MODE_OF_KIND = {'handlers': '_ExceptHandlers', 'cases': '_match_cases', 'decorator_list': '_decorator_list', 'Assign.targets': '_Assign_targets',
                'generators': '_comprehensions', 'ifs': '_comprehension_ifs', 'Import.names': '_Import_names', 'ImportFrom.names': '_ImportFrom_names',
                'items': '_withitems', 'keywords': '_arglikes', 'Call.args': '_arglikes', 'type_params': '_type_params'}
ROUTES = ('put_slice', 'put_one_false', 'view_setslice', 'view_replace', 'setattr_whole', 'insert', 'append', 'extend', 'prepend', 'prextend',
          'del_put_slice_none', 'del_view', 'del_view_remove', 'del_put_none')


def params(tier):
    if tier == 'quick':
        return {'examples': 3000, 'wall': 120, 'case_timeout': 40}

    return {'examples': 30000, 'wall': 600, 'case_timeout': 60}


def floors(tier):
    return {'distinct_nontrivial': 2000 if tier == 'quick' else 40000}


def strategy(tier):
    @st.composite
    def strat(draw):
        return {'src': draw(gen.program(40)), 'csel': draw(st.integers(0, 1 << 30)), 'start': draw(st.integers(-7, 7)), 'stop': draw(st.integers(-7, 7)),
                'dsel': draw(st.integers(0, 1 << 20)), 'form': draw(st.sampled_from(['src', 'src', 'ast', 'fst'])), 'delete': draw(st.integers(0, 4)) == 0,
                'single': draw(st.integers(0, 3)) == 0, 'layout': draw(gen.layout_draws), 'prefer_virtual': draw(st.integers(0, 3)) == 0}

    return strat()


GRID_TEMPLATES = (
    'r = call(a, *b, j=2,\n         m=3)', 'r = call(a, b, c)', 'r = call(\n    a,\n    b,\n    k=1,  # c\n)', 'r = call(a, k=1, *b, m=2,\n  **kw)',
    'r = call(aa, g(\n x\n), b, k=1)', 'class C(A, *bs, m=1,\n        n=2): pass', 'class C(\n    A,\n    B,\n): pass',
    'r = [a, b, c]', 'r = [\n    a,  # c1\n    b,\n    c,\n]', 'r = (a,\n     b, c)', 'r = a, b, c', 'r = {a, b,\n     c}', 'r = {a: 1, **b,\n     c: 2}',
    'a = b = c = 1', 'del a, b[0], c.d', 'with a as x, b, c as (y,\n z): pass', 'with (\n    a as x,\n    b,\n): pass',
    'import a, b.c as d, e', 'from m import (a,\n    b as c,\n    d)', 'global a, b, c',
    '@d1\n@d2(x)\n@d3\ndef f(): pass', 'r = [i for i in a if b if c\n     if d]', 'r = [i for i in a for j in b\n     for k in c]',
    'def f(a, /, b, c=1, *d, e, f=2, **g): pass', 'def f(a,\n      b=1,\n      *, c): pass', 'r = lambda a, b=1, *c, d: 0',
    'r = a < b <= c\\\n    != d', 'r = a and b and c\\\n    and d', 'r = a or b or c',
    'match s:\n    case [a, b, *c]: pass\n    case C(a, b, k=1,\n           m=2): pass\n    case {1: a, 2: b, **r}: pass\n    case a | b | c: pass',
    'if a:\n    x\n    y  # c\n\n    z\nelse:\n    w', 'try:\n    a\nexcept A: b\nexcept B as e:\n    c\nexcept C: d', 'def f[T, *U,\n      **V](): pass',
    'x\ny; z\n# c\nw', 'with (a, b), c: pass', 'with (a, b) as x, (c), d: pass',
)


def enumerate_cases(tier, shard, nshards, seed):
    """Index grid on templates: every container of every template x every (start, stop) in -n-1..n+1 and 'end' x 3 donors x {slice put, slice
    delete, single put, single delete} in src and fst form. Thorough: complete; quick: seeded third."""

    k = 0

    for src in GRID_TEMPLATES:
        try:
            conts = em.container_targets(ast.parse(src))
        except SyntaxError:
            continue

        for ci, (parent, field, n0) in enumerate(conts):
            try:
                n = len(c07.orig_elements(parent, field))
            except Exception:
                continue

            rng = list(range(-n - 1, n + 2)) + [7]

            for start in rng:
                for stop in rng:
                    for mode in ('slice', 'slice_del', 'single', 'single_del'):
                        if mode.startswith('single') and stop != rng[0]:
                            continue  # single element operations only use start

                        for ds in ((0, 1, 2) if not mode.endswith('del') else (0,)):
                            for form in (('src', 'fst') if not mode.endswith('del') else ('src',)):
                                k += 1

                                if k % nshards != shard:
                                    continue

                                if tier == 'quick' and (k * 2654435761 + seed * 40503) % 3:
                                    continue

                                yield {'src': src, 'csel': ci, 'start': start, 'stop': stop, 'dsel': ds, 'form': form, 'delete': mode.endswith('del'),
                                       'single': mode.startswith('single'), 'layout': [], 'prefer_virtual': False, 'grid': True}


def new_elements(kind, donor):
    """CPython parse of the donor into a list of element ASTs (pure)."""

    if not donor.strip():
        return []

    if kind == 'stmts':
        return ast.parse(donor).body

    if kind in ('exprs', 'Delete.targets'):
        t = ast.parse(f'(\n{donor}\n)', mode='eval').body

        return list(t.elts) if isinstance(t, ast.Tuple) and not donor.lstrip().startswith('(') else [t] if not isinstance(t, (ast.List, ast.Set)) or True and not donor.lstrip().startswith(('[', '{')) else [t]

    if kind == 'Global.names':
        return [n.strip() for n in donor.split(',') if n.strip()]

    if kind in ('MatchSequence.patterns', 'MatchClass.patterns'):
        p = ast.parse(f'match _:\n case C({donor}): pass').body[0].cases[0].pattern

        return p.patterns

    if kind == 'MatchOr.patterns':
        p = ast.parse(f'match _:\n case {donor}: pass').body[0].cases[0].pattern

        return p.patterns if isinstance(p, ast.MatchOr) else [p]

    if kind == 'BoolOp.values':
        e = ast.parse(donor, mode='eval').body

        return e.values if isinstance(e, ast.BoolOp) else [e]

    mode = MODE_OF_KIND.get(kind)

    if mode:
        refs = c05.ref_results(mode, donor)

        if refs:
            return list(refs[0])

    raise Skip(f'no_cpython_elements_for:{kind}')


def set_store(a, ctx):
    for n in ast.walk(a):
        if isinstance(n, (ast.Name, ast.Attribute, ast.Subscript, ast.Starred, ast.Tuple, ast.List)) and n is a:
            n.ctx = ctx()

    if isinstance(a, (ast.Tuple, ast.List)):
        for e in a.elts:
            set_store(e, ctx)
    elif isinstance(a, ast.Starred):
        set_store(a.value, ctx)


def norm_bounds(n, start, stop):
    s = None if start == 7 else start
    e = None if stop == 7 else stop
    s2, e2, _ = slice(n if s is None else s, e).indices(n)

    return s2, e2


def locate(tree, path):
    node = tree

    for f, i in path:
        node = getattr(node, f)[i] if i is not None else getattr(node, f)

    return node


def run_route(root, path, field, route, code, start, stop, n):
    """Perform the request through one entry point. Returns False if the route cannot express the request."""

    pf = locate(root.a, path).f
    s_ = 'end' if start == 7 else start
    e_ = 'end' if stop == 7 else stop
    sl = slice(None if start == 7 else start, None if stop == 7 else stop)
    s2, e2 = norm_bounds(n, start, stop)

    if route == 'put_slice':
        pf.put_slice(code, s_, e_, field)
    elif route == 'put_one_false':
        pf.put(code, s_, e_, field, one=False)
    elif route == 'view_setslice':
        if start == 7:
            return False

        getattr(pf, field)[sl] = code
    elif route == 'view_replace':
        if start == 7:
            return False

        getattr(pf, field)[sl].replace(code, one=False)
    elif route == 'setattr_whole':
        if not (s2 == 0 and e2 == n):
            return False

        setattr(pf, field, code)
    elif route == 'insert':
        if s2 != e2 or start == 7 and False:
            return False

        pf.insert(code, s_, field, one=False)
    elif route == 'append' or route == 'extend':
        if not (s2 == e2 == n):
            return False

        if route == 'append':
            return False  # append puts as ONE element; only comparable for single-element code, handled by 'single' cases

        pf.extend(code, field)
    elif route == 'prepend' or route == 'prextend':
        if not (s2 == e2 == 0):
            return False

        if route == 'prepend':
            return False

        pf.prextend(code, field)
    elif route == 'del_put_slice_none':
        pf.put_slice(None, s_, e_, field)
    elif route == 'del_view':
        if start == 7:
            return False

        del getattr(pf, field)[sl]
    elif route == 'del_view_remove':
        if start == 7:
            return False

        getattr(pf, field)[sl].remove()
    elif route == 'del_put_none':
        pf.put(None, s_, e_, field)
    else:
        return False

    return True


def after_elements(tree0_parent, tree1, path, field):
    """Element signatures of the container in the tree after the edit, or None if the container itself was replaced by
    normalisation (BoolOp / Compare / MatchOr collapsing to their single element) - a documented effect, not comparable."""

    cont = locate(tree1, path)

    if cont.__class__ is not tree0_parent.__class__:
        return None

    if isinstance(cont, ast.BoolOp) and cont.op.__class__ is not tree0_parent.op.__class__:
        return None

    if field == '_body':  # the docstring offset is the ORIGINAL one: a string statement that becomes first is still an element of the field
        off = len(tree0_parent.body) - len(c07.orig_elements(tree0_parent, '_body'))

        return [c07.sig(e) for e in cont.body[off:]]

    return c07.orig_elements(cont, field)


DOCUMENTED_REFUSALS = ('because it precedes', 'because it follows', 'not implemented', 'without norm', 'cannot delete all', 'cannot cut all', 'cannot follow', 'cannot precede', 'would result in two',
                       'must be at end', 'follows keywords', 'requires an', 'cannot put Slice', 'args without defaults', 'cannot have', 'posonlyargs cannot',
                       'star alias', 'cannot put star', 'unparenthesized tuple', 'expecting single', 'cannot insert', 'cannot put to Call.args slice')


def documented_refusal(exc):
    if isinstance(exc, NotImplementedError):
        return True

    msg = str(exc)

    return any(d in msg for d in DOCUMENTED_REFUSALS)


def make_code(kind, donor, form):
    if form == 'src':
        return donor

    if kind == 'stmts':
        return ast.parse(donor) if form == 'ast' else FST(donor, 'exec')

    if kind in ('exprs', 'Delete.targets'):
        t = ast.parse(f'(\n{donor}\n)', mode='eval').body if donor.strip() else ast.Tuple(elts=[], ctx=ast.Load())

        if not isinstance(t, ast.Tuple) or donor.lstrip().startswith('('):
            t = ast.Tuple(elts=[t], ctx=ast.Load())

        return t if form == 'ast' else FST(t)

    mode = MODE_OF_KIND.get(kind)

    if mode and form == 'fst':
        return FST(donor, mode)

    return donor


def execute(case, ctx):
    src = case['src']

    if (why := c01.excluded(src)):
        raise Skip(f'excluded_known_finding:{why}')

    if c04.LONE_CONT.search(src):
        raise Skip('domain:lone_continuation_line')

    try:
        tree0 = ast.parse(src)
        root = FST(src, 'exec')
    except Exception as exc:
        raise Skip(f'build_failed:{type(exc).__name__}') from None

    conts = em.container_targets(tree0)

    if case.get('prefer_virtual'):
        vconts = [c for c in conts if c[1].startswith('_')]
        conts = vconts or conts

    if not conts:
        raise Skip('no_containers')

    parent, field, n0 = em.pick(conts, case['csel'])
    kind = em.slice_kind(parent, field)
    path = em.path_of(tree0, parent) if parent is not tree0 else []

    if path is None:
        raise Skip('path_not_found')

    virtual = field.startswith('_')
    old_sigs = c07.orig_elements(parent, field)
    n = len(old_sigs)
    start, stop = case['start'], case['stop']
    delete = case['delete']
    donors = em.SLICE_DONORS.get(kind)

    if not donors:
        raise Skip(f'no_donors:{kind}')

    donor = '' if delete else em.pick([d for d in donors if not d.lstrip().startswith(('(', '[', '{')) or kind in ('Dict._all', 'MatchMapping._all')], case['dsel'])
    pname = parent.__class__.__name__
    site = f'{pname}.{field}'

    if kind == 'handlers' and donor and isinstance(parent, ast.TryStar):
        donor = donor.replace('except ', 'except* ')  # handlers of a TryStar

    if kind == 'BoolOp.values' and donor:
        op = 'and' if isinstance(parent.op, ast.And) else 'or'
        donor = em.pick((f'a {op} b', 'x', f'a {op} b {op} c', f'(a)\n{op} b'), case['dsel'])  # a slice of the same operator (a different operator is one element)

    # ------------------------------------------------------------------------------------------------ single element
    if case['single']:
        if n == 0 or virtual and pname in ('Dict', 'MatchMapping', 'arguments'):
            raise Skip('single_not_applicable')

        i = start if start != 7 else n - 1
        valid_index = -n <= i < n
        pi = i + n if i < 0 else i
        pf = locate(root.a, path).f
        desc = f'put(None, {i}) on {site} (len {n})' if delete else f'put(one element, {i}) on {site} (len {n})'

        if not delete:
            if kind not in PLAIN_KINDS and kind not in ('Global.names', 'Call._args', 'ClassDef._bases'):
                raise Skip('single_put_kind_not_modelled')

            try:
                if kind in ('Call._args', 'ClassDef._bases'):  # merged positional / keyword arguments in source order
                    c = ast.parse(f'_({donor})', mode='eval').body
                    elems = sorted(c.args + c.keywords, key=lambda x: (x.lineno, x.col_offset))
                else:
                    elems = new_elements(kind, donor)
            except SyntaxError:
                raise Skip('donor_unparseable') from None

            if len(elems) != 1:
                raise Skip('single_needs_one_element')

            if donor.rstrip().endswith(','):
                raise Skip('single_donor_trailing_comma')  # as ONE element '1,' is a one-element sequence, not the element 1

            new_sig = [c07.sig(elems[0]) if not isinstance(elems[0], str) else ('name', elems[0])]
        else:
            new_sig = []

        try:
            pf.put(None if delete else donor, i, field=field)
            exc = None
        except Exception as e:
            exc = e

        ctx.count('single_ops')

        if exc is not None:
            if root.src != src:
                raise Violation('C03.raise_changed', f'{desc} raised {exc!r} but changed the source', f'single:{site}')

            if not valid_index:
                if not isinstance(exc, IndexError):
                    ctx.count(f'out_of_range_raises:{type(exc).__name__}')

                ctx.count('index_out_of_range_refused')

                return

            ctx.count(f'refused:{type(exc).__name__}')

            return

        if not valid_index:
            raise Violation('C03.index', f'{desc}: index out of range was accepted (Python list raises IndexError)\n--- after ---\n{root.src[:400]}', f'single_index:{site}')

        try:
            tree1 = ast.parse(root.src)
            after = after_elements(parent, tree1, path, field)
        except (SyntaxError, AttributeError, IndexError, TypeError):
            after = None

        if after is None:
            ctx.count('after_not_comparable(C01 / normalisation)')

            return

        nullable = field in ('keys', 'kw_defaults')
        expect = old_sigs[:pi] + ([None] if delete and nullable else new_sig) + old_sigs[pi + 1:]
        expect = [('name', e[1]) if isinstance(e, tuple) and len(e) == 2 and e[0] == 'name' else e for e in expect]

        if not expect and after != expect:
            ctx.count('emptied_container_left_invalid_without_norm(documented)')  # 'with a: pass' -> 'with (): pass' re-parses as one item '()'
        elif after != expect and not (pname in ('BoolOp', 'Compare') and len(expect) == 1):
            raise Violation('C03.single', f'{desc}: field is not old with exactly position {pi} changed\n--- before ---\n{src[:400]}\n--- after ---\n{root.src[:400]}', f'single:{site}')

        check_rest_unchanged(tree0, tree1, path, parent, field, desc, site)
        live_equals_source(root, tree1, desc, site)

        if i < 0 or start == 7 or '\n' in (ast.get_source_segment(src, parent) or '') if hasattr(parent, 'lineno') else False:
            ctx.mark_nontrivial(case, {'op': desc, 'src': src[:200]} if case['csel'] % 31 == 0 else None)

        return

    # ------------------------------------------------------------------------------------------------ slice
    s2, e2 = norm_bounds(n, start, stop)
    reversed_bounds = s2 > e2
    desc = f'put_slice({donor!r} as {case["form"]}, {start if start != 7 else "end"!r}, {stop if stop != 7 else "end"!r}) on {site} (len {n})'

    try:
        elems = new_elements(kind, donor) if kind in PLAIN_KINDS or kind == 'Global.names' else None
    except SyntaxError:
        raise Skip('donor_unparseable') from None

    try:
        code = make_code(kind, donor, case['form']) if not delete else None
    except Skip:
        raise
    except Exception as exc:
        raise Skip(f'donor_build_failed:{type(exc).__name__}') from None

    try:
        run_route(root, path, field, 'del_put_slice_none' if delete else 'put_slice', code, start, stop, n)
        exc = None
    except Exception as e:
        exc = e

    ctx.count('slice_ops')
    ctx.count(f'kind:{kind}')

    # expected tree for plain fields
    expected_S = None
    model_valid = None

    if elems is not None and not virtual and kind in PLAIN_KINDS and not reversed_bounds:
        exp_tree = copy.deepcopy(tree0)
        cont = locate(exp_tree, path)
        old_list = getattr(cont, field)
        new_list = old_list[:s2] + copy.deepcopy(elems) + old_list[e2:]
        setattr(cont, field, new_list)

        try:
            unp = ast.unparse(ast.fix_missing_locations(exp_tree))
            rt = ast.parse(unp)
            expected_S = S(rt)
            model_valid = S0(rt) == S0(exp_tree)
        except Exception:
            model_valid = False

    if exc is not None:
        if root.src != src:
            raise Violation('C03.raise_changed', f'{desc} raised {exc!r} but changed the source', f'slice:{site}')

        if reversed_bounds:
            ctx.count('reversed_bounds_refused' if isinstance(exc, IndexError) else f'reversed_bounds_other:{type(exc).__name__}')

            return

        if model_valid and not documented_refusal(exc) and not isinstance(exc, SyntaxError):
            raise Violation('C03.refused_valid', f'{desc} raised {exc!r} although the model result is valid Python:\n{unp[:500]}\n--- before ---\n{src[:400]}',
                            f'refused:{site}:{type(exc).__name__}@{fst_site(exc)}')

        ctx.count(f'refused:{type(exc).__name__}')

        return

    after_src = root.src

    try:
        tree1 = ast.parse(after_src)
    except SyntaxError:
        ctx.count('after_unparsable(reported by C01)')

        return

    if reversed_bounds:
        ctx.count('reversed_bounds_accepted')  # must then behave like Python: insert at start
        e2 = s2

    if expected_S is not None and model_valid:
        got = S(tree1)

        if got != expected_S and any(isinstance(x, ast.JoinedStr) for x in ast.walk(tree1)) and S_fblank(tree1) == S_fblank(rt):
            ctx.count('fstring_debug_text_follows_the_edit(not part of the model)')  # f'{f()=}': the literal text of a self-documenting field is the source of its expression
            got = expected_S

        if got != expected_S:
            from ..oracle import first_diff

            raise Violation('C03.model', f'{desc}: result != old[:{s2}] + new + old[{e2}:] applied to the pure AST {first_diff(got, expected_S)}\n--- before ---\n{src[:500]}\n--- after ---\n{after_src[:500]}',
                            f'model:{site}')
    else:
        try:
            after = after_elements(parent, tree1, path, field)
        except (AttributeError, IndexError, TypeError, KeyError):
            after = None

        if after is None:
            ctx.count('after_not_comparable(normalisation changed the container)')

        if after is not None:
            if elems is not None:
                new_sigs = [c07.sig(e) if not isinstance(e, str) else ('name', e) for e in elems]
            else:
                new_sigs = None  # virtual: element signatures of the donor come from pfst-independent parse of donor container

                try:
                    if kind in ('Dict._all',):
                        d = ast.parse(donor if donor.lstrip().startswith('{') else '{' + donor + '}', mode='eval').body
                        new_sigs = [(c07.sig(k), c07.sig(v)) for k, v in zip(d.keys, d.values)]
                    elif kind == 'MatchMapping._all':
                        p = ast.parse(f'match _:\n case {donor}: pass').body[0].cases[0].pattern
                        new_sigs = [(c07.sig(k), c07.sig(v)) for k, v in zip(p.keys, p.patterns)] + ([('rest', p.rest)] if p.rest else [])
                    elif kind in ('Call._args', 'ClassDef._bases'):
                        c = ast.parse(f'_({donor})', mode='eval').body
                        new_sigs = [c07.sig(e) for e in sorted(c.args + c.keywords, key=lambda x: (x.lineno, x.col_offset))]
                    elif kind == 'arguments._all':
                        new_sigs = c07.args_elements(ast.parse(f'def _({donor}): pass').body[0].args)
                    elif kind == 'Compare._all':
                        new_sigs = None
                    elif kind == 'stmts':
                        new_sigs = [c07.sig(e) for e in ast.parse(donor).body]
                except SyntaxError:
                    new_sigs = None

                if delete:
                    new_sigs = []

            if new_sigs is not None:
                expect = old_sigs[:s2] + new_sigs + old_sigs[e2:]

                if after != expect and has_degenerate(root.a):
                    ctx.count('degenerate_container_left_without_norm(documented)')  # 'a < (b < c)' minus 'a' leaves the one-operand Compare '(b < c)', which re-parses as the inner Compare
                elif not expect and after != expect:
                    ctx.count('emptied_container_left_invalid_without_norm(documented)')  # e.g. 'with (a, b): pass' -> 'with (): pass' re-parses as one item '()'
                elif after != expect and kind != 'arguments._all':
                    raise Violation('C03.model', f'{desc}: elements are not old[:{s2}] + new + old[{e2}:]\n got    {after}\n expect {expect}\n--- before ---\n{src[:400]}\n--- after ---\n{after_src[:400]}',
                                    f'model_sig:{site}')

            check_rest_unchanged(tree0, tree1, path, parent, field, desc, site)

    live_equals_source(root, tree1, desc, site)

    # ---- entry point agreement
    for route in ROUTES:
        if route in ('put_slice', 'del_put_slice_none') or route.startswith('del_') != delete:
            continue

        try:
            r2 = FST(src, 'exec')
            code2 = make_code(kind, donor, case['form']) if not delete else None
            applicable = run_route(r2, path, field, route, code2, start, stop, n)
        except Exception as e2x:
            raise Violation('C03.entry_points', f'{desc}: succeeded through put_slice but entry point {route} raised {e2x!r}\n--- before ---\n{src[:400]}', f'route:{route}:{site}') from None

        if not applicable:
            continue

        ctx.count(f'route:{route}')

        if r2.src != after_src:
            raise Violation('C03.entry_points', f'{desc}: entry point {route} gives different source than put_slice\n--- put_slice ---\n{after_src[:500]}\n--- {route} ---\n{r2.src[:500]}',
                            f'route:{route}:{site}')

    # ---- sub-views: the same request written relative to a window view[a:b] with a <= start and stop <= b, through the view's own list methods
    if not reversed_bounds:
        for k in range(3):
            sel = case['csel'] // (7 ** (k + 1)) + case['dsel'] * (k + 1)
            a = s2 - (sel % (s2 + 1))
            b = e2 + ((sel // 11) % (n - e2 + 1))
            m = b - a
            rs, re_ = s2 - a, e2 - a
            form = (sel // 131) % 5
            sub_desc = None

            def rel(i, neg):
                return i - m if neg and i < m else i

            try:
                r5 = FST(src, 'exec')
                pf5 = locate(r5.a, path).f
                v = getattr(pf5, field)[a:b]
                code5 = make_code(kind, donor, case['form']) if not delete else None

                if delete:
                    if form == 0:
                        sub_desc = f'del view[{a}:{b}][{rs}:{re_}]'
                        del v[rs:re_]
                    elif form == 1:
                        sub_desc = f'view[{a}:{b}][{rel(rs, True)}:{rel(re_, True) if re_ < m else None}].remove()'
                        v[rel(rs, True):(rel(re_, True) if re_ < m else None)].remove()
                    elif rs == 0 and re_ == m:
                        sub_desc = f'view[{a}:{b}].remove()'
                        v.remove()
                    else:
                        sub_desc = f'view[{a}:{b}][{rs}:{re_}].remove()'
                        v[rs:re_].remove()
                elif rs == re_:
                    if form == 0:
                        sub_desc = f'view[{a}:{b}].insert(code, {rs})'
                        v.insert(code5, rs, one=False)
                    elif form == 1 and rs < m:
                        sub_desc = f'view[{a}:{b}].insert(code, {rs - m})'
                        v.insert(code5, rs - m, one=False)
                    elif form == 2 and rs == 0:
                        oob = -m - 1 - (sel % 3)
                        sub_desc = f'view[{a}:{b}].insert(code, {oob})  (below the start of the view: clamps to its start)'
                        v.insert(code5, oob, one=False)
                    elif form == 3 and rs == m:
                        sub_desc = f'view[{a}:{b}].extend(code)'
                        v.extend(code5)
                    elif form == 4 and rs == 0:
                        sub_desc = f'view[{a}:{b}].prextend(code)'
                        v.prextend(code5)
                    elif rs == m:
                        sub_desc = f"view[{a}:{b}].insert(code, 'end')"
                        v.insert(code5, 'end', one=False)
                    else:
                        sub_desc = f'view[{a}:{b}][{rs}:{rs}] = code'
                        v[rs:rs] = code5
                else:
                    if form in (0, 3):
                        sub_desc = f'view[{a}:{b}][{rs}:{re_}] = code'
                        v[rs:re_] = code5
                    elif form == 1:
                        sub_desc = f'view[{a}:{b}][{rel(rs, True)}:{rel(re_, True) if re_ < m else None}] = code'
                        v[rel(rs, True):(rel(re_, True) if re_ < m else None)] = code5
                    else:
                        sub_desc = f'view[{a}:{b}][{rs}:{re_}].replace(code, one=False)'
                        v[rs:re_].replace(code5, one=False)
            except Exception as e5:
                raise Violation('C03.subview', f'{desc}: succeeded through put_slice but the equivalent {sub_desc} raised {e5!r}\n--- before ---\n{src[:400]}',
                                f'subview_raise:{(sub_desc or "?").split("(")[0].split("]")[-1]}:{site}') from None

            ctx.count(f'subview:{sub_desc.split("[")[0] if sub_desc.startswith("del") else sub_desc.split("]")[-1].split("(")[0].strip() or "setslice"}')

            if r5.src != after_src:
                raise Violation('C03.subview', f'{desc}: the equivalent {sub_desc} gives a different source than put_slice\n--- put_slice ---\n{after_src[:500]}\n--- sub-view ---\n{r5.src[:500]}',
                                f'subview:{sub_desc.split("]")[-1].split("(")[0].strip() or "setslice"}:{site}')

    # ---- index forms: the same bounds written differently
    alt = []

    if start != 7 and stop != 7 and n:
        if 0 <= start <= n:
            alt.append((start - n if start < n else 7, stop))
        if 0 <= stop < n:
            alt.append((start, stop - n))
        if stop >= n:
            alt.append((start, 7))

    for a_start, a_stop in alt[:2]:
        if norm_bounds(n, a_start, a_stop) != (s2, e2) or reversed_bounds:
            continue

        try:
            r3 = FST(src, 'exec')
            code3 = make_code(kind, donor, case['form']) if not delete else None
            run_route(r3, path, field, 'del_put_slice_none' if delete else 'put_slice', code3, a_start, a_stop, n)
        except Exception as e3:
            raise Violation('C03.index_forms', f'{desc}: equivalent bounds ({a_start}, {a_stop}) raised {e3!r}', f'index_forms:{site}') from None

        ctx.count('index_form_pairs')

        if r3.src != after_src:
            raise Violation('C03.index_forms', f'{desc}: equivalent bounds ({a_start if a_start != 7 else "end"}, {a_stop if a_stop != 7 else "end"}) give a different result\n--- a ---\n{after_src[:400]}\n--- b ---\n{r3.src[:400]}',
                            f'index_forms:{site}')

    # ---- layout independence
    if case['layout']:
        lsrc = gen.mutate_layout(src, case['layout'])

        if lsrc != src and not c04.LONE_CONT.search(lsrc) and not c01.excluded(lsrc):
            try:
                r4 = FST(lsrc, 'exec')
                ltree = ast.parse(lsrc)
                code4 = make_code(kind, donor, case['form']) if not delete else None
                run_route(r4, path, field, 'del_put_slice_none' if delete else 'put_slice', code4, start, stop, n)
                lafter = ast.parse(r4.src)
            except Exception as e4:
                if has_degenerate(root.a) or ('r4' in locals() and r4 is not None and has_degenerate(r4.a)):
                    ctx.count('layout_pair_with_degenerate_container_not_compared(documented invalid state without norm)')
                elif S(ast.parse(lsrc)) == S(tree0):
                    raise Violation('C03.layout', f'{desc}: the same request on a re-layout of the program raised {e4!r}\n--- layout ---\n{lsrc[:500]}', f'layout_raise:{site}') from None

                lafter = None

            if lafter is not None and (has_degenerate(root.a) or has_degenerate(r4.a)):
                ctx.count('layout_pair_with_degenerate_container_not_compared(documented invalid state without norm)')
            elif lafter is not None:
                ctx.count('layout_pairs')

                if c07.norm_dump(lafter) != c07.norm_dump(tree1):
                    raise Violation('C03.layout', f'{desc}: structure of the result depends on the layout\n--- a ---\n{after_src[:400]}\n--- b (layout variant) ---\n{r4.src[:400]}', f'layout:{site}')

    changes_len = (e2 - s2) != (len(elems) if elems is not None else -1)

    if changes_len or start < 0 or stop < 0 or start == 7 or stop == 7 or abs(start) > n or abs(stop) > n or virtual:
        ctx.mark_nontrivial(case, {'op': desc, 'src': src[:200], 'after': after_src[:200]} if case['csel'] % 31 == 0 else None)


def has_degenerate(a) -> bool:
    """Without norm an emptied / single-element container is documented to be left as an invalid intermediate state."""

    for n in ast.walk(a):
        if (isinstance(n, ast.BoolOp) and len(n.values) < 2 or isinstance(n, ast.Compare) and not n.ops or isinstance(n, ast.MatchOr) and len(n.patterns) < 2
            or isinstance(n, (ast.ListComp, ast.SetComp, ast.DictComp, ast.GeneratorExp)) and not n.generators or isinstance(n, (ast.With, ast.AsyncWith)) and not n.items
            or isinstance(n, (ast.Assign, ast.Delete)) and not n.targets or isinstance(n, (ast.Import, ast.ImportFrom, ast.Global, ast.Nonlocal)) and not n.names
            or isinstance(n, ast.Set) and not n.elts or isinstance(n, (ast.Try, ast.TryStar)) and not n.handlers and (not n.finalbody or n.orelse or isinstance(n, ast.TryStar))
            or isinstance(n, ast.Match) and not n.cases
            or any(isinstance(getattr(n, f, None), list) and not getattr(n, f) for f in ('body',) if not isinstance(n, ast.Module))
        ):
            return True

    return False


def live_equals_source(root, tree1, desc, site):
    """The container operation must leave the live tree equal to the parse of the new source (element order inside the real fields included):
    a put through a virtual field that re-partitions args / keywords is where the two can drift apart while the text is right."""

    from ..oracle import first_diff

    if has_degenerate(root.a):
        return

    live, want = c07.norm_dump(root.a), c07.norm_dump(tree1)

    if live != want:
        raise Violation('C03.live_tree', f'{desc}: the live tree differs from the parse of the resulting source {first_diff(live, want)}\n--- after ---\n{root.src[:500]}', f'live:{site}')


def check_rest_unchanged(tree0, tree1, path, parent, field, desc, site):
    """Everything except the container's own element fields is structurally unchanged."""

    a = copy.deepcopy(tree0)
    b = copy.deepcopy(tree1)

    try:
        ca, cb = locate(a, path), locate(b, path)
    except (AttributeError, IndexError, TypeError):
        return

    if ca.__class__ is not cb.__class__ or (isinstance(ca, ast.BoolOp) and ca.op.__class__ is not cb.op.__class__):
        return  # normalisation replaced the container (documented), nothing to mask

    fields = {'_all': {'Dict': ('keys', 'values'), 'MatchMapping': ('keys', 'patterns', 'rest'), 'Compare': ('left', 'ops', 'comparators'),
                       'arguments': ('posonlyargs', 'args', 'vararg', 'kwonlyargs', 'kw_defaults', 'kwarg', 'defaults')}.get(ca.__class__.__name__, ()),
              '_args': ('args', 'keywords'), '_bases': ('bases', 'keywords'), '_body': ('body',), '_attrs': ('patterns', 'kwd_attrs', 'kwd_patterns')}.get(field, (field,))

    for c in (ca, cb):
        for f in fields:
            v = getattr(c, f, None)
            setattr(c, f, [] if isinstance(v, list) else None)

        if isinstance(c, ast.Compare):
            c.left = ast.Constant(value=0)

    if c07.norm_dump(a) != c07.norm_dump(b):
        for t in (a, b):  # the literal text of a self-documenting f-string field follows an edit of its expression
            for n in ast.walk(t):
                if isinstance(n, ast.JoinedStr):
                    for v in n.values:
                        if isinstance(v, ast.Constant):
                            v.value = ''

    if c07.norm_dump(a) != c07.norm_dump(b):
        from ..oracle import first_diff

        raise Violation('C03.rest_changed', f'{desc}: nodes outside the container changed {first_diff(c07.norm_dump(b), c07.norm_dump(a))}', f'rest:{site}')
