"""C13 - reconcile() returns a valid tree that equals the externally edited AST."""

from __future__ import annotations

import ast

from hypothesis import strategies as st

from .. import editmachine as em
from .. import gen
from ..editmachine import FST
from ..oracle import S
from ..runner import Skip, Violation, fst_site
from . import c01, c04, c07

ID = 'C13'
LEVEL = 'exploration'
TECHNIQUE = 'stateful property-based testing: histories of pure-AST mutations between mark() and reconcile(); oracle: CPython unparse/parse of the edited AST'
RULE = ('mark(), then a Hypothesis-drawn script (0-6 mutations quick, 0-12 thorough, 1-3 mark/reconcile rounds) of pure-AST mutations on root.a: '
        'rename identifiers / change constants / change operators; replace an expression by a brand-new ast node, by a node taken from '
        'another FST tree, by another node of the same tree (move / duplicate); swap, reverse, duplicate, delete (keeping required lists '
        'non-empty) and insert list elements and statements; nested mutations inside moved nodes. A script is kept only if the edited AST is '
        'valid by CPython\'s judgement (ast.parse(ast.unparse(edited)) dumps equal to edited). Oracle: out = reconcile(): C01 invariant on out; '
        'ast.dump(ast.parse(out.src)) == ast.dump(ast.parse(ast.unparse(edited))); with zero mutations out.src == marked source; every '
        'top-level statement that, with both neighbours, was not touched by any mutation keeps its original text (with its leading comment '
        'block and line comment). Half of the reconciles run under an ambient global option set (AMBIENTS: values of the options reconcile pins '
        'for its replay - pars, norm*, coerce, docstr, raw, trivia ...), which must not influence the result; a deterministic grid runs every '
        'mutation kind x selectors x every ambient set on expression-rich programs. Non-trivial = >= 2 mutations of different kinds of which >= 1 moves / duplicates an original node, in a '
        'program with comments; distinct by (source, script).')
ASSUMPTIONS = [
    'the comment-preservation clause is asserted only for top-level statements not adjacent to any change (docs call comment handling in reconcile experimental)',
    'mutations keep the AST valid (checked by CPython round trip); invalid scripts are discarded and counted',
]

MUTS = ('rename', 'const', 'op', 'new_expr', 'foreign_expr', 'dup_expr', 'swap_list', 'reverse_list', 'del_elem', 'ins_stmt', 'dup_stmt', 'del_stmt', 'foreign_stmt', 'move_stmt',
        'clear_list', 'ins_elem', 'del_any_elem', 'const_kind', 'dict_del', 'foreign_swapped')


def params(tier):
    if tier == 'quick':
        return {'examples': 900, 'wall': 80, 'case_timeout': 40, 'max_muts': 6}

    return {'examples': 20000, 'wall': 600, 'case_timeout': 60, 'max_muts': 12}


def floors(tier):
    return {'distinct_nontrivial': 300 if tier == 'quick' else 6000}


def strategy(tier):
    @st.composite
    def strat(draw):
        rounds = draw(st.integers(1, 3))
        mut = st.tuples(st.sampled_from(MUTS), st.integers(0, 1 << 30), st.integers(0, 1 << 30))

        return {'src': draw(gen.program(35)), 'rounds': [draw(st.lists(mut, min_size=0, max_size=params(tier)['max_muts'])) for _ in range(rounds)],
                'opts': draw(st.sampled_from([{}, {}, {'pep8space': 1}, {'elif_': False}, {'pep8space': False}]))}

    return strat()


# ambient (global) option values in effect while reconcile() runs: every one of them is in the option set which reconcile pins for its replay, so
# none may influence the result
AMBIENTS = ({'pars': False}, {'pars': True}, {'coerce': True}, {'docstr': False}, {'norm': True}, {'norm_get': True}, {'norm_self': True}, {'pars_walrus': False},
            {'pars_arglike': False}, {'raw': 'auto'}, {'trivia': 'all'}, {'pars': False, 'norm': True, 'docstr': 'strict'})
RECON_PROGRAMS = (
    'x = d * e\ny = (a + b) * c  # c1\nz = f(a, (b, c), k=(u if v else w))\nw = [p.q, -r, (s := 1), lambda: t]',
    'def f(a, b=(1, 2)):\n    # lead\n    return (a or b) and c  # tail\n\nclass C(B):\n    v: int = a ** -b\n    def m(self): return self.x[(i, j)]',
    'if a < (b | c) < d:\n    p = not (q and r)\nelif x:\n    y = [i for i in (j, k) if (i + 1)]\nelse:\n    del u, v\nfor t in (yield): pass',
)


def enumerate_cases(tier, shard, nshards, seed):
    """Grid: every mutation kind x a few selector pairs, alone and followed by a second mutation, under every ambient option set (and none), on the
    expression-rich programs."""

    k = 0
    sels = [(i * 7919 + 1, i * 104729 + 3) for i in range(6 if tier == 'quick' else 16)]

    for src in RECON_PROGRAMS:
        for mut in MUTS:
            for a, b in sels:
                for ai in range(-1, len(AMBIENTS)):
                    k += 1

                    if k % nshards != shard:
                        continue

                    rounds = [[[mut, a, b]]] if ai % 2 else [[[mut, a, b], [MUTS[(a + ai) % len(MUTS)], b, a]]]

                    yield {'src': src, 'rounds': rounds, 'opts': {}, 'ambient': ai, 'enumerated': True}


def L():
    return ast.Load()


def expr_slots(tree):
    """(parent, field, idx) of Load-context expression positions that can take any expression."""

    out = []

    for n in ast.walk(tree):
        if isinstance(n, (ast.JoinedStr, ast.FormattedValue, ast.pattern, ast.MatchValue)):
            continue

        for f in n._fields:
            if isinstance(n, ast.Call) and f == 'func' or isinstance(n, (ast.keyword,)) and False:
                pass

            v = getattr(n, f, None)

            if isinstance(v, ast.expr) and isinstance(getattr(v, 'ctx', L()), ast.Load) and not isinstance(v, (ast.Starred, ast.Slice, ast.JoinedStr)) \
                    and not (isinstance(n, (ast.arg, ast.AnnAssign)) and f == 'annotation') and not isinstance(n, (ast.FunctionDef, ast.AsyncFunctionDef, ast.ClassDef)) \
                    and not (isinstance(n, ast.Subscript) and f == 'slice') and not isinstance(n, (ast.TypeVar, ast.TypeAlias, ast.MatchClass, ast.MatchMapping)):
                out.append((n, f, None))
            elif isinstance(v, list) and f in ('elts', 'args', 'values', 'comparators'):
                for i, e in enumerate(v):
                    if isinstance(e, ast.expr) and isinstance(getattr(e, 'ctx', L()), ast.Load) and not isinstance(e, (ast.Starred, ast.Slice)) and not isinstance(n, ast.JoinedStr):
                        out.append((n, f, i))

    return out


def stmt_lists(tree):
    out = []

    for n in ast.walk(tree):
        for f in ('body', 'orelse', 'finalbody'):
            v = getattr(n, f, None)

            if isinstance(v, list) and v and all(isinstance(e, ast.stmt) for e in v):
                out.append((n, f))

    return out


def getslot(p, f, i):
    return getattr(p, f) if i is None else getattr(p, f)[i]


def setslot(p, f, i, v):
    if i is None:
        setattr(p, f, v)
    else:
        getattr(p, f)[i] = v


def top_index(tree, node):
    """Index of the top-level statement containing node (or None)."""

    for k, s in enumerate(tree.body):
        for n in ast.walk(s):
            if n is node:
                return k

    return None


def apply_mut(tree, mut, touched, kinds):
    """Apply one mutation in place. `touched` collects indices of ORIGINAL top-level statements (by identity) that were changed
    or whose neighbourhood changed. Returns False if not applicable."""

    kind, a, b = mut

    def mark(node):
        for s in tree.body:
            if any(n is node for n in ast.walk(s)):
                touched.add(id(s))

    if kind == 'rename':
        names = [n for n in ast.walk(tree) if isinstance(n, (ast.Name, ast.arg, ast.Attribute, ast.FunctionDef, ast.ClassDef, ast.AsyncFunctionDef))]

        if not names:
            return False

        n = names[a % len(names)]
        mark(n)

        if isinstance(n, ast.Name):
            n.id = n.id + '_r'
        elif isinstance(n, ast.arg):
            n.arg = n.arg + '_r'
        elif isinstance(n, ast.Attribute):
            n.attr = n.attr + '_r'
        else:
            n.name = n.name + '_r'
    elif kind == 'const':
        cs = [n for n in ast.walk(tree) if isinstance(n, ast.Constant) and isinstance(n.value, (int, str)) and not isinstance(n.value, bool)]
        # constants inside f-strings / patterns are left alone
        cs = [n for n in cs if not any(isinstance(p, (ast.JoinedStr, ast.pattern)) and any(c is n for c in ast.walk(p)) for p in ast.walk(tree) if isinstance(p, (ast.JoinedStr, ast.pattern)))]

        if not cs:
            return False

        n = cs[a % len(cs)]
        mark(n)
        n.value = n.value + 1 if isinstance(n.value, int) else n.value + 'x'
        n.kind = None
    elif kind == 'op':
        ops = [n for n in ast.walk(tree) if isinstance(n, ast.BinOp)]

        if not ops:
            return False

        n = ops[a % len(ops)]
        mark(n)
        n.op = ast.Sub() if isinstance(n.op, ast.Add) else ast.Add()
    elif kind in ('new_expr', 'foreign_expr', 'dup_expr'):
        slots = expr_slots(tree)

        if not slots:
            return False

        p, f, i = slots[a % len(slots)]
        mark(p)

        if kind == 'new_expr':
            new = [ast.Name(id='fresh', ctx=L()), ast.Call(func=ast.Name(id='fn', ctx=L()), args=[ast.Constant(value=1)], keywords=[]),
                   ast.BinOp(left=ast.Name(id='u', ctx=L()), op=ast.Mult(), right=ast.Name(id='v', ctx=L())), ast.Constant(value='s'),
                   ast.List(elts=[ast.Name(id='p', ctx=L()), ast.Name(id='q', ctx=L())], ctx=L()),
                   ast.IfExp(test=ast.Name(id='c', ctx=L()), body=ast.Constant(value=1), orelse=ast.Constant(value=2))][b % 6]
        elif kind == 'foreign_expr':
            new = FST(('other(  x,  y  )', '[1,\n 2]', '( a   +   b )', 'z . w', "{'k' :  v}")[b % 5]).a
        else:
            src_slots = [s for s in slots if s != (p, f, i)]

            if not src_slots:
                return False

            q, g, j = src_slots[b % len(src_slots)]
            new = getslot(q, g, j)

            # do not create cycles: new must not contain p
            if any(n is p for n in ast.walk(new)):
                return False

        setslot(p, f, i, new)
    elif kind == 'const_kind':
        cs = [n for n in ast.walk(tree) if isinstance(n, ast.Constant)]
        cs = [n for n in cs if not any(isinstance(p, (ast.JoinedStr, ast.pattern)) and any(c is n for c in ast.walk(p)) for p in ast.walk(tree) if isinstance(p, (ast.JoinedStr, ast.pattern)))]

        if not cs:
            return False

        n = cs[a % len(cs)]
        mark(n)
        new = (True, None, 7, 2.5, b'b', 1j, 0, 'txt', False, 1)[b % 10]  # Ellipsis: known finding C13-constant-to-ellipsis (mutation 'const_ellipsis' below, never drawn)

        if type(new) is type(n.value) and new == n.value:
            return False

        n.value = new
        n.kind = None
    elif kind == 'const_ellipsis':
        cs = [n for n in ast.walk(tree) if isinstance(n, ast.Constant)]

        if not cs:
            return False

        n = cs[a % len(cs)]
        mark(n)
        n.value = ...
        n.kind = None
    elif kind == 'dict_del':
        ds = [n for n in ast.walk(tree) if isinstance(n, ast.Dict) and len(n.keys) >= 2]

        if not ds:
            return False

        n = ds[a % len(ds)]
        mark(n)

        if b % 3 == 0 and any(k is None for k in n.keys) and any(k is not None for k in n.keys):  # keep only the ** entries
            keep = [i for i, k in enumerate(n.keys) if k is None]
            n.keys = [n.keys[i] for i in keep]
            n.values = [n.values[i] for i in keep]
        else:
            i = b % len(n.keys)
            del n.keys[i]
            del n.values[i]
    elif kind == 'foreign_swapped':
        slots = expr_slots(tree)

        if not slots:
            return False

        p, f, i = slots[a % len(slots)]
        mark(p)
        which = b % 3

        if which == 0:  # children of a node of another tree exchanged by pure AST edits before one of them is transplanted
            d = FST('r = alpha  +  beta * 2', 'exec').a.body[0].value
            d.left, d.right = d.right, d.left
            new = d.left
        elif which == 1:
            d = FST('r = one  if  cond  else  other . attr', 'exec').a.body[0].value
            d.body, d.orelse = d.orelse, d.body
            new = d.body
        else:
            m = FST('u = first ( 1 )\nv = second [ 2 ]', 'exec').a
            m.body[0].value, m.body[1].value = m.body[1].value, m.body[0].value
            new = m.body[0].value

        setslot(p, f, i, new)
    elif kind in ('clear_list', 'ins_elem', 'del_any_elem'):
        # expression-list fields of every kind, also empty ones (validity of the result is CPython's call, checked by the caller)
        fields = ('elts', 'args', 'keywords', 'bases', 'decorator_list', 'ifs', 'type_params', 'comparators', 'targets')
        lists = [(n, f) for n in ast.walk(tree) for f in fields if isinstance(getattr(n, f, None), list) and not isinstance(n, (ast.JoinedStr, ast.arguments, ast.pattern))
                 and isinstance(getattr(n, 'ctx', L()), ast.Load) and (kind == 'ins_elem' or getattr(n, f))]

        if kind == 'ins_elem':
            lists = [(n, f) for n, f in lists if f in ('elts', 'args', 'bases', 'decorator_list', 'ifs')]

        if not lists:
            return False

        n, f = lists[a % len(lists)]
        mark(n)
        v = getattr(n, f)

        if kind == 'clear_list':
            v.clear()
        elif kind == 'del_any_elem':
            del v[b % len(v)]
        else:
            v.insert(b % (len(v) + 1), [ast.Name(id='added', ctx=L()), ast.Call(func=ast.Name(id='mk', ctx=L()), args=[], keywords=[]),
                                        ast.Attribute(value=ast.Name(id='mod', ctx=L()), attr='attr', ctx=L())][(b // 13) % 3])
    elif kind in ('swap_list', 'reverse_list', 'del_elem'):
        lists = [(n, f) for n in ast.walk(tree) for f in ('elts', 'args', 'values') if isinstance(getattr(n, f, None), list) and len(getattr(n, f)) >= 2
                 and not isinstance(n, (ast.JoinedStr, ast.Dict, ast.BoolOp)) and isinstance(getattr(n, 'ctx', L()), ast.Load)]

        if not lists:
            return False

        n, f = lists[a % len(lists)]
        mark(n)
        v = getattr(n, f)

        if kind == 'swap_list':
            i, j = b % len(v), (b // 7) % len(v)
            v[i], v[j] = v[j], v[i]
        elif kind == 'reverse_list':
            v.reverse()
        else:
            del v[b % len(v)]

        # starred / keyword ordering stays valid only by CPython's judgement (checked by the caller)
    else:
        sls = stmt_lists(tree)

        if not sls:
            return False

        n, f = sls[a % len(sls)]
        v = getattr(n, f)
        i = b % len(v)

        def mark_neigh(k):
            # neighbourhood in the top-level list
            if n is tree:
                for kk in (k - 1, k, k + 1):
                    if 0 <= kk < len(v):
                        touched.add(id(v[kk]))
            else:
                mark(n)

        if kind == 'ins_stmt':
            mark_neigh(i)
            new = [ast.Pass(), ast.Assign(targets=[ast.Name(id='ins', ctx=ast.Store())], value=ast.Constant(value=0), lineno=0),
                   ast.Expr(value=ast.Call(func=ast.Name(id='call', ctx=L()), args=[], keywords=[])),
                   ast.If(test=ast.Name(id='cond', ctx=L()), body=[ast.Pass()], orelse=[])][(b // 11) % 4]
            v.insert(i, new)
            touched.add(id(new))
        elif kind == 'foreign_stmt':
            mark_neigh(i)
            new = FST(('l="formatting"  # stays', 'def other(a,  b):\n    return a  *  b  # yay', 'if  q :\n    pass # c')[(b // 11) % 3]).a
            v.insert(i, new)
            touched.add(id(new))
        elif kind == 'dup_stmt':
            mark_neigh(i)
            v.insert(i, v[i])
        elif kind == 'del_stmt':
            if len(v) < 2:
                return False

            mark_neigh(i)
            del v[i]

            if n is tree and i < len(v):
                touched.add(id(v[i]))
            if n is tree and i - 1 >= 0:
                touched.add(id(v[i - 1]))
        else:  # move_stmt
            if len(v) < 2:
                return False

            j = (b // 13) % len(v)
            mark_neigh(i)
            mark_neigh(j)
            s = v.pop(i)
            v.insert(j, s)
            mark_neigh(j)

    kinds.add(kind)

    return True


def execute(case, ctx):
    src = case['src']

    if c01.excluded(src) or c04.LONE_CONT.search(src):
        raise Skip('domain_excluded')

    try:
        t0 = ast.parse(src)
        root = FST(src, 'exec')
    except Exception as exc:
        raise Skip(f'build_failed:{type(exc).__name__}') from None

    if any(isinstance(n, ast.JoinedStr) for n in ast.walk(t0)):
        raise Skip('domain:program_with_fstring')  # self-documenting {x=} constants are rewritten by pfst when x is renamed; ast.unparse of the edited AST keeps the old text

    opts = case['opts']

    for rnd, script in enumerate(case['rounds']):
        marked_src = root.src
        marked_tree = ast.parse(marked_src)
        root.mark()
        tree = root.a
        originals = list(tree.body)
        orig_ref = {id(s): r for s, r in zip(originals, marked_tree.body)}
        touched = set()
        kinds = set()
        applied = 0

        for mut in script:
            try:
                if apply_mut(tree, mut, touched, kinds):
                    applied += 1
            except Exception:
                raise Skip('mutation_helper_failed') from None

        # the edited AST must be valid by CPython's judgement
        try:
            ast.fix_missing_locations(tree) if False else None
            unp = ast.unparse(tree)
            exp = ast.parse(unp)
            exp_S = S(exp)

            if S(ast.parse(ast.unparse(exp))) != exp_S:
                raise ValueError('unstable')

            if c07.norm_dump(tree) != c07.norm_dump(exp):  # e.g. an Assign left without targets, an emptied Set: not a valid AST
                raise ArithmeticError('edited AST does not survive unparse -> parse')
        except RecursionError:
            raise Skip('recursion') from None
        except Exception as exc:
            ctx.count(f'script_invalid_for_cpython:{type(exc).__name__}')

            return

        ctx.count('reconciles')
        ctx.count(f'mutations_applied:{min(applied, 6)}')
        desc = f'round {rnd}: {applied} mutations {sorted(kinds)} then reconcile({opts})'
        site = '+'.join(sorted(kinds)[:3]) or 'none'

        ai = case.get('ambient')

        if ai is None:  # drawn cases: half of them under an ambient option set chosen by the script's selectors
            ai = sum(m[1] for m in script) % (2 * len(AMBIENTS)) if script else -1

        amb = AMBIENTS[ai] if 0 <= ai < len(AMBIENTS) else {}

        if amb:
            ctx.count('reconciles_under_ambient_options')
            desc += f' under ambient options {amb}'

        try:
            with FST.options(**amb):
                out = root.reconcile(**opts)
        except Exception as exc:
            raise Violation('C13.raise', f'{desc} raised {exc!r}\n--- marked ---\n{marked_src[:600]}\n--- edited (unparsed) ---\n{unp[:600]}', f'raise:{type(exc).__name__}@{fst_site(exc)}:{site}') from None

        if out.src.rstrip(' \t\n').endswith('\\'):
            ctx.count('result_ends_with_continuation(C01-dangling-continuation-eof family, not re-reported)')

            return

        try:
            c01.check_invariant(out, None, 'C13.c01')
        except Violation as v:
            raise Violation('C13.c01', f'{desc}: {v.msg[:900]}\n--- marked ---\n{marked_src[:400]}', f'c01:{site}') from None

        got_S = S(ast.parse(out.src))

        if c07.norm_dump(ast.parse(out.src)) != c07.norm_dump(exp):
            from ..oracle import first_diff

            raise Violation('C13.structure', f'{desc}: result != edited AST {first_diff(got_S, exp_S)}\n--- marked ---\n{marked_src[:500]}\n--- reconciled ---\n{out.src[:500]}\n--- edited (unparsed) ---\n{unp[:500]}',
                            f'structure:{site}')

        if applied == 0 and out.src != marked_src:
            raise Violation('C13.noop', f'{desc}: no changes were made but the source differs\n--- marked ---\n{marked_src[:500]}\n--- reconciled ---\n{out.src[:500]}', 'noop')

        # untouched top-level statements keep their text (with leading comment block and line comment)
        lines = marked_src.split('\n')

        try:
            lstart, _ = c04.logical_lines(marked_src)
        except Exception:
            lstart = {}

        for k, s in enumerate(originals):
            neigh = [originals[j] for j in (k - 1, k, k + 1) if 0 <= j < len(originals)]

            if any(id(x) in touched for x in neigh) or not any(x is s for x in tree.body):
                continue

            r = orig_ref[id(s)]
            lo = min([r.lineno] + [d.lineno for d in getattr(r, 'decorator_list', [])])

            if any(o is not r and o.lineno <= r.end_lineno and o.end_lineno >= lo for o in marked_tree.body):
                continue  # shares a physical line with another statement (';'): its text is not a set of whole lines

            if any(o is not r and lstart.get(o.lineno - 1, o.lineno - 1) == lstart.get(r.lineno - 1, r.lineno - 1) for o in marked_tree.body):
                continue  # shares a LOGICAL line with another statement ('a; \\' + newline + 'b'): same thing across a backslash continuation

            while lo > 1 and lines[lo - 2].lstrip().startswith('#'):
                lo -= 1

            text = '\n'.join(l.rstrip() for l in lines[lo - 1:r.end_lineno])  # trailing whitespace after a statement is not part of its text

            if text not in '\n'.join(l.rstrip() for l in out.src.split('\n')):
                raise Violation('C13.untouched_text', f'{desc}: untouched top-level statement #{k} (not adjacent to any change) lost its original text:\n{text[:300]}\n--- reconciled ---\n{out.src[:700]}',
                                f'text:{site}')

            ctx.count('untouched_statements_checked')

        if len(kinds) >= 2 and kinds & {'dup_expr', 'swap_list', 'reverse_list', 'dup_stmt', 'move_stmt'} and '#' in marked_src:
            ctx.mark_nontrivial((src, rnd, tuple(script)), {'marked': marked_src[:200], 'mutations': sorted(kinds), 'reconciled': out.src[:200]} if applied % 3 == 0 else None)

        root = out
