"""C10 - raw source edits are equivalent to re-parsing the whole file, or change nothing."""

from __future__ import annotations

import ast
import tokenize

from hypothesis import strategies as st

from .. import editmachine as em
from .. import gen
from ..editmachine import FST
from ..oracle import T, first_diff
from ..runner import Skip, Violation, fst_site
from .c06 import Src
from .c12 import check_links, modifying_clear

ID = 'C10'
LEVEL = 'exploration'
TECHNIQUE = 'stateful property-based testing of raw source splices; differential oracle: string splice + whole-file CPython parse'
RULE = ('Sequences (1-6 quick, 1-12 thorough) of put_src(action=\'reparse\') calls, reparse() calls and raw-mode node puts on module '
        'sources. Rectangles: two offsets drawn in the current source, snapped (per drawn mode) to token boundaries, line '
        'boundaries, node extents, or left mid-token / zero-width; replacement text from token soup, pieces of the program '
        'itself, valid donor code, indentation changes, newlines, comments, unbalanced brackets and the identity. Oracle: '
        'want = string splice; if the call returns: root.src == want, ast.dump(root.a, positions) == dump(ast.parse(want)), '
        'root identity kept; if it raises: source, tree and links unchanged, no modification lock left; and it must return '
        'exactly when ast.parse(want) succeeds. For raw node puts `want` is read back from root.src (those entry points adjust '
        'separators) and only "returned => valid and equal" is asserted. Non-trivial = the splice changes the token stream and '
        'crosses a statement boundary, touches indentation, or changes a block header line; distinct by (source, edit prefix).')
ASSUMPTIONS = [
    'Module roots; CPython 3.12 ast.parse decides validity of the whole new source',
    'known disagreements are listed in known_findings.json and excluded by the stated predicates (counted)',
]

SOUP = ('', ' ', '\n', '    ', '\n    ', '(', ')', '[', ']', ',', ':', ';', '=', '+', 'x', 'if', 'else:', 'elif y:', 'pass', 'def f():', '# c', '\\\n', '"',
        "'''", '\t', 'x = 1', '\n\n', 'and', 'not', '.', '*', 'lambda:', 'return', '  # c\n', 'a, b', '(a)', ' \\\n ', '1', 'f(', 'class C:', 'try:', 'except:',
        'ñ', '\n        ', 'with a:', 'async ', 'await ', 'yield', '@d\n', 'for i in j:', 'while x:', '0', '\nx\n', ';x;', 'x;')


def params(tier):
    if tier == 'quick':
        return {'examples': 1200, 'wall': 80, 'case_timeout': 30, 'max_steps': 6}

    return {'examples': 30000, 'wall': 600, 'case_timeout': 60, 'max_steps': 12}


def floors(tier):
    return {'distinct_nontrivial': 300 if tier == 'quick' else 5000}


@st.composite
def edit_strategy(draw):
    e = {'kind': draw(st.sampled_from(['put_src'] * 7 + ['reparse', 'raw_put', 'raw_put'])),
         'o1': draw(st.integers(0, 1 << 30)), 'o2': draw(st.integers(0, 1 << 30)), 'snap': draw(st.integers(0, 6)),
         'width': draw(st.integers(0, 40))}
    t = draw(st.integers(0, 9))

    if t < 4:
        e['text'] = draw(st.sampled_from(SOUP))
    elif t < 6:
        e['text'] = ''.join(draw(st.lists(st.sampled_from(SOUP), min_size=2, max_size=4)))
    elif t < 8:
        e['text'] = None  # piece of the program itself, chosen by o3/o4
        e['o3'] = draw(st.integers(0, 1 << 30))
        e['o4'] = draw(st.integers(0, 60))
    elif t < 9:
        e['text'] = draw(gen.expr_donor())
    else:
        e['text'] = 'IDENTITY'

    return e


def strategy(tier):
    @st.composite
    def strat(draw):
        return {'src': draw(gen.program(35)), 'edits': draw(st.lists(edit_strategy(), min_size=1, max_size=params(tier)['max_steps']))}

    return strat()


TEMPLATES = (
    "f('д'); g(d,\n  e)\nh = 1",
    "if 'é': r = (a,\n b)\nz = 0",
    "class Ü: x = {1:\n 2}\ny = x",
    "def f(ä, b=[1,\n 2]): pass; q = (ä,\n b)",
    "x = 'é'; y = [a,\n b]; z = 1",
    "try:\n    a = 'ü'; b = f(c,\n  d)\nexcept E as e: h = (e,\n 1)\nfinally: k = 1",
    "match q:\n    case 'é': r = [a,\n b]\n    case _: pass",
    "@d('é')\n@e(a,\n  b)\ndef f(): pass",
    "for i in 'ñ': j = {i:\n 1}\nelse: k = 2",
    "with a as b: c = 'ö'; d = (c,\n b)",
    "while 'é': x = (1 +\n 2); break",
    "async def f(): await g('é'); h = [1,\n 2]",
    "w = lambda ü: (ü,\n 1); v = 2",
    "if a:\n    b = 'é'; c = f(d,\n      e)\nelif g: h = 'ü'; i = (j,\n k)\nelse: l = 'ö'; m = [n,\n o]",
    "x = f'{a}é{b!r:>{w}}'; y = (a,\n b)",
    "def f():\n    '''dé'''; x = [1,\n 2]\n    return x",
    "a = b = 'é' \\\n    'ü'; c = (d,\n e)",
)


def enumerate_cases(tier, shard, nshards, seed):
    """Token replacement grid: on every template (same-line statements after non-ASCII text, multi-line nodes, handlers, cases, decorators, ...)
    and every synthetic program, each NAME / NUMBER / STRING token is replaced once by a token of the same kind and a different length through
    put_src(action='reparse'), from the root."""

    import io
    import keyword
    import tokenize

    k = 0

    for src in TEMPLATES + gen.SYN_PROGRAMS:
        try:
            toks = list(tokenize.generate_tokens(io.StringIO(src).readline))
        except Exception:
            continue

        lines = src.split('\n')

        for t in toks:
            if t.type == tokenize.NAME and not keyword.iskeyword(t.string) and t.string not in ('match', 'case', 'type', '_'):
                texts = ('zz9é', 'q')
            elif t.type == tokenize.NUMBER:
                texts = ('12345',)
            elif t.type == tokenize.STRING and '\n' not in t.string:
                texts = ("'qü'",)
            else:
                continue

            a = pos2off(lines, t.start[0] - 1, t.start[1])
            b = pos2off(lines, t.end[0] - 1, t.end[1])

            for text in texts:
                k += 1

                if k % nshards == shard:
                    yield {'src': src, 'edits': [{'kind': 'put_src', 'o1': a, 'o2': 0, 'snap': 0, 'width': b - a, 'text': text}]}


def shrinks(case):
    n = len(case['edits'])

    for i in reversed(range(n)):
        yield {**case, 'edits': case['edits'][:i] + case['edits'][i + 1:]}

    from ..runner import generic_shrinks

    yield from generic_shrinks(case)


def off2pos(src, off):
    ln = src.count('\n', 0, off)
    col = off - (src.rfind('\n', 0, off) + 1)

    return ln, col


def pos2off(lines, ln, col):
    return sum(len(l) + 1 for l in lines[:ln]) + col


def choose_rect(src, e):
    n = len(src)
    a = e['o1'] % (n + 1)
    snap = e['snap']
    b = min(n, a + e['width']) if snap != 6 else e['o2'] % (n + 1)

    if a > b:
        a, b = b, a

    if snap in (1, 2):  # token boundaries
        try:
            sc = Src(src)
        except Exception:
            return a, b

        lines = sc.lines
        starts = sorted({pos2off(lines, *t[2]) for t in sc.toks} | {pos2off(lines, *t[3]) for t in sc.toks})

        if starts:
            a = min(starts, key=lambda x: abs(x - a))
            b = min((x for x in starts if x >= a), key=lambda x: abs(x - b), default=a)

            if snap == 2:
                b = a  # zero width at a token boundary
    elif snap == 3:  # whole lines
        a = src.rfind('\n', 0, a) + 1
        nb = src.find('\n', b)
        b = n if nb < 0 else nb + (e['o2'] % 2)
    elif snap == 4:  # a node extent (CPython)
        try:
            tree = ast.parse(src)
        except SyntaxError:
            return a, b

        nodes = [x for x in ast.walk(tree) if hasattr(x, 'lineno')]

        if nodes:
            x = nodes[e['o2'] % len(nodes)]
            lines = src.split('\n')
            a = pos2off(lines, x.lineno - 1, len(lines[x.lineno - 1].encode()[:x.col_offset].decode()))
            b = pos2off(lines, x.end_lineno - 1, len(lines[x.end_lineno - 1].encode()[:x.end_col_offset].decode()))

    return a, min(b, n)


def excluded(old, want, a, b, text):
    """Exclusion predicates of known findings (see known_findings.json); counted, never silently dropped."""

    if want.rstrip(' \t').endswith('\\\n') or want.rstrip(' \t').endswith('\\'):
        return 'trailing_continuation_at_eof'  # C01-dangling-continuation-eof family: pfst parses as if one more newline followed

    if '#' in text.split('\n')[-1]:
        rest = old[b:old.find('\n', b) if old.find('\n', b) >= 0 else len(old)]

        if rest.strip():
            return 'comment_swallows_code'  # C10-header-edit-comment-swallows-body

    return None


def shares_line(old, a, b):
    """Does the edited region touch a statement that shares a physical line with another statement (';' joined, or body on
    the block header line)? Computed from CPython's parse of the OLD source. Used to identify the known finding
    C10-semicolon-neighbours-not-seen by input class."""

    try:
        tree = ast.parse(old)
    except (SyntaxError, ValueError):
        return False

    la = old.count('\n', 0, a) + 1
    lb = old.count('\n', 0, b) + 1
    lines = old.split('\n')
    parent = {}

    for n in ast.walk(tree):
        for c in ast.iter_child_nodes(n):
            parent[c] = n

    def ancestors(n):
        while n in parent:
            n = parent[n]

            yield n

    stmts = [n for n in ast.walk(tree) if isinstance(n, (ast.stmt, ast.ExceptHandler, ast.match_case)) and hasattr(n, 'lineno')]
    touching = [n for n in stmts if n.lineno <= lb and n.end_lineno >= la]

    for t in touching:
        first = lines[t.lineno - 1].encode()
        last = lines[t.end_lineno - 1].encode()
        col = t.col_offset

        for d in getattr(t, 'decorator_list', ()):
            if d.lineno < t.lineno:
                first = lines[d.lineno - 1].encode()
                col = first.find(b'@')

        if first[:col].strip():
            return True  # something else (';' neighbour, block header, `else:`) before the statement on its line

        tail = last[t.end_col_offset:].decode(errors='ignore').strip()

        if tail and not tail.startswith('#'):
            return True  # ';' (own or a neighbour's) after the statement on its line

    return False


def touches_indent(old, a, b, text):
    """Does the edit start inside the leading whitespace of a line or introduce a line break (so that it can change the
    indentation structure)? Identifies the known finding C10-local-reparse-ignores-indentation by input class."""

    line_start = old.rfind('\n', 0, a) + 1

    return old[line_start:a].strip() == '' or '\n' in text or '\n' in old[a:b]


def nontrivial_splice(old, want, a, b):
    try:
        ko = [(t.type, t.string) for t in tokenize.generate_tokens(iter(old.splitlines(True)).__next__)]
        kw = [(t.type, t.string) for t in tokenize.generate_tokens(iter(want.splitlines(True)).__next__)]
    except Exception:
        return True

    if ko == kw:
        return False

    seg = old[a:b]
    line_start = old.rfind('\n', 0, a) + 1
    touches_indent = old[line_start:a].strip() == ''
    header = old[line_start:old.find('\n', a) if old.find('\n', a) >= 0 else len(old)].rstrip().endswith(':')

    return '\n' in seg or ';' in seg or touches_indent or header or '\n' in want[a:a + (len(want) - len(old) + (b - a))]


def execute(case, ctx):
    try:
        root = FST(case['src'], 'exec')
    except Exception as exc:
        raise Skip(f'build_failed:{type(exc).__name__}') from None

    root_id = id(root)

    for i, e in enumerate(case['edits']):
        old = root.src
        t_old = T(root.a)
        kind = e['kind']

        if kind == 'reparse':
            # reparse() on a node: source unchanged, tree must equal a from-scratch parse, or raise leaving everything as is
            nodes = em.node_targets(root.a)
            tgt = em.pick(nodes, e['o1'])[0].f if nodes and e['o2'] % 4 else root

            if tgt.loc is None:
                ctx.count('reparse_on_node_without_location_skipped')

                continue

            try:
                tgt.reparse()
            except Exception as exc:
                if root.src != old or T(root.a) != t_old:
                    raise Violation('C10.reparse_raise_changed', f'reparse() on {tgt!r} raised {exc!r} and changed the tree', f'reparse:{type(exc).__name__}') from None

                try:
                    ast.parse(old)
                except SyntaxError:
                    continue

                if isinstance(exc, NotImplementedError):
                    ctx.count('not_implemented_refusals')

                    continue

                raise Violation('C10.reparse_raised_valid', f'reparse() on {tgt!r} raised {exc!r} although the source is valid\n--- src ---\n{old[:800]}',
                                f'reparse:{type(exc).__name__}@{fst_site(exc)}') from None

            if root.src != old:
                raise Violation('C10.reparse_src', f'reparse() on {tgt!r} changed the source', 'reparse')

            try:
                ref = ast.parse(old)
            except SyntaxError:
                raise Violation('C10.reparse_ok_invalid', f'reparse() returned on a source CPython rejects\n{old[:600]}', 'reparse') from None

            if T(root.a) != T(ref):
                raise Violation('C10.reparse_tree', f'after reparse() on {tgt!r}: tree != from-scratch parse {first_diff(T(root.a), T(ref))}', 'reparse')

            ctx.count('reparse_calls')

            continue

        if kind == 'raw_put':
            nodes = em.node_targets(root.a)

            if not nodes:
                continue

            node, parent, field, idx = em.pick(nodes, e['o1'])
            text = e['text'] if isinstance(e['text'], str) and e['text'] != 'IDENTITY' else 'x'
            desc = f'{parent.__class__.__name__}.{field}[{idx}] {node.__class__.__name__}.replace({text!r}, raw=True)'
            lines0 = old.split('\n')
            na, nb = (pos2off(lines0, node.lineno - 1, 0), pos2off(lines0, node.end_lineno - 1, 0)) if hasattr(node, 'lineno') else (0, len(old))
            shared = (':sharedline' if shares_line(old, na, nb) else '') + (':indent' if '\n' in text or text[:1] in (' ', '\t') else '')

            try:
                node.f.replace(text, raw=True)
            except Exception as exc:
                ctx.count('raw_put_raised')

                if root.src != old or T(root.a) != t_old:
                    raise Violation('C10.raw_raise_changed', f'{desc} raised {exc!r} but source/tree changed\n--- before ---\n{old[:600]}\n--- after ---\n{root.src[:600]}',
                                    f'raw:{parent.__class__.__name__}.{field}:{type(exc).__name__}') from None

                check_links(root, 'C10.raw_links', f'raw:{parent.__class__.__name__}.{field}')

                if modifying_clear(root) is False:
                    from fst import fst_core

                    fst_core._MODIFYING.clear()

                    raise Violation('C10.raw_lock_left', f'{desc} raised {exc!r} and left a modification registry entry', f'raw:{parent.__class__.__name__}.{field}') from None

                continue

            ctx.count('raw_put_ok')
            want = root.src

            if (why := excluded(old, want, 0, 0, text)):
                ctx.count(f'excluded_known_finding:{why}')

                return

            try:
                ref = ast.parse(want)
            except SyntaxError as exc:
                raise Violation('C10.raw_ok_invalid', f'{desc} returned but the source no longer parses: {exc!r}\n--- src ---\n{want[:800]}',
                                f'raw:{parent.__class__.__name__}.{field}{shared}') from None

            if T(root.a) != T(ref):
                raise Violation('C10.raw_tree', f'{desc}: tree != from-scratch parse {first_diff(T(root.a), T(ref))}\n--- src ---\n{want[:800]}',
                                f'raw:{parent.__class__.__name__}.{field}{shared}')

            if id(root) != root_id or root.a.f is not root:
                raise Violation('C10.root_identity', f'{desc}: root identity changed', 'raw')

            continue

        # put_src(action='reparse')
        a, b = choose_rect(old, e)
        text = e['text']

        if text is None:
            o = e['o3'] % (len(old) + 1)
            text = old[o:o + e['o4']]
        elif text == 'IDENTITY':
            text = old[a:b]

        want = old[:a] + text + old[b:]
        (ln, col), (end_ln, end_col) = off2pos(old, a), off2pos(old, b)
        desc = f'put_src({text!r}, {ln}, {col}, {end_ln}, {end_col}) replacing {old[a:b]!r}'

        if (why := excluded(old, want, a, b, text)) and not e.get('no_exclude'):
            ctx.count(f'excluded_known_finding:{why}')

            continue

        try:
            ref = ast.parse(want)
            valid = True
            why_invalid = None
        except (SyntaxError, ValueError) as exc:
            ref = None
            valid = False
            why_invalid = exc
        except (RecursionError, MemoryError):
            continue

        nodes = em.node_targets(root.a)
        caller = em.pick(nodes, e['o2'])[0].f if nodes and e['o2'] % 3 else root

        try:
            caller.put_src(text, ln, col, end_ln, end_col)
            raised = None
        except Exception as exc:
            raised = exc

        ctx.count('put_src_calls')
        sig = (f'{"valid" if valid else "invalid"}:{type(raised).__name__ if raised else "ok"}{":sharedline" if shares_line(old, a, b) else ""}'
               f'{":indent" if touches_indent(old, a, b, text) else ""}')

        if raised is not None:
            if root.src != old:
                raise Violation('C10.raise_changed_src', f'{desc} raised {raised!r} but the source changed\n--- before ---\n{old[:800]}\n--- after ---\n{root.src[:800]}', sig)

            if T(root.a) != t_old:
                raise Violation('C10.raise_changed_tree', f'{desc} raised {raised!r} but the tree changed', sig)

            check_links(root, 'C10.links', sig)

            if modifying_clear(root) is False:
                from fst import fst_core

                fst_core._MODIFYING.clear()

                raise Violation('C10.lock_left', f'{desc} raised {raised!r} and left a modification registry entry', sig)

            if valid and isinstance(raised, NotImplementedError):
                ctx.count('not_implemented_refusals')

                continue

            if valid:
                raise Violation('C10.raised_but_valid', f'{desc} raised {raised!r} although the whole new source is valid\n--- old ---\n{old[:800]}\n--- want ---\n{want[:800]}',
                                f'{sig}@{fst_site(raised)}')

            ctx.count('rejected_invalid')

            continue

        if root.src != want:
            raise Violation('C10.src', f'{desc} returned but source != requested splice\n--- want ---\n{want[:800]}\n--- got ---\n{root.src[:800]}', sig)

        if not valid:
            raise Violation('C10.ok_but_invalid', f'{desc} returned although the whole new source is invalid for CPython: {why_invalid!r}\n--- old ---\n{old[:800]}\n--- want ---\n{want[:800]}', sig)

        if T(root.a) != T(ref):
            raise Violation('C10.tree', f'{desc}: tree != from-scratch parse {first_diff(T(root.a), T(ref))}\n--- old ---\n{old[:800]}\n--- want ---\n{want[:800]}', sig)

        if id(root) != root_id or root.a.f is not root or not root.is_root:
            raise Violation('C10.root_identity', f'{desc}: root identity changed', sig)

        check_links(root, 'C10.links_ok', sig)
        ctx.count('accepted_valid')

        if nontrivial_splice(old, want, a, b):
            ctx.mark_nontrivial([case['src'], case['edits'][:i + 1]], {'old_head': old[:200], 'edit': desc[:300]} if i == 0 else None)
