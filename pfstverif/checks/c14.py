"""C14 - traversal visits every node once, in source order, consistently across APIs."""

from __future__ import annotations

import ast

from hypothesis import strategies as st

from .. import editmachine as em
from .. import gen
from ..editmachine import FST
from ..runner import Skip, Violation

ID = 'C14'
LEVEL = 'exploration'
TECHNIQUE = 'enumeration of real files + property-based programs; oracle: ast.walk set equality, CPython positions for sibling order, cross-API consistency relations'
RULE = ('Programs: a seeded slice of real files (whole files, sharded), all synthetic grammar-corner templates, the '
        'maintainers\' snippet inputs and Hypothesis-drawn layout-mutated windows. For each program and a Hypothesis/seed-drawn '
        'sample of its nodes as walk roots: walk(all=True) == set(ast.walk) each once; parents before children; siblings with '
        'CPython positions in position order and operators between their operands; back=True == same tree with sibling lists '
        'reversed; on=leave / both == post-order / bracketed order of the same tree; self_/recurse variants; filtered walks '
        '(False, \'loc\', type, set, callable) == filter of the full walk; step_fwd/step_back chains == forward/backward walk; '
        'next/prev, next_child/prev_child, first_child/last_child agree with walk(recurse=False) and are mutually inverse; '
        'child_from_path(child_path(n)) is n (list and str form), paths distinct. Non-trivial = program contains a node type whose '
        'syntax order differs from field order (Call with keywords and starred, ClassDef bases/keywords, Dict with **, Compare, '
        'arguments with defaults, MatchMapping/MatchClass, decorated defs, comprehensions) with >= 2 interleaved children; '
        'distinct by source hash.')
ASSUMPTIONS = [
    'sibling order is checked against CPython start positions for nodes that have them; operators are constrained relative to '
    'their operands; positionless nodes (expr_context, boolop, empty arguments) only by parent order',
    'the meaning of all=False / all=\'loc\' filters is taken from the walk() docstring',
]

INTERLEAVED = (ast.Call, ast.ClassDef, ast.Dict, ast.Compare, ast.arguments, ast.MatchMapping, ast.MatchClass, ast.FunctionDef,
               ast.AsyncFunctionDef, ast.ListComp, ast.SetComp, ast.DictComp, ast.GeneratorExp, ast.BoolOp)


def params(tier):
    if tier == 'quick':
        return {'examples': 150, 'wall': 80, 'case_timeout': 60, 'files': 40}

    return {'examples': 2500, 'wall': 600, 'case_timeout': 120, 'files': 110}


def floors(tier):
    return {'distinct_nontrivial': 100 if tier == 'quick' else 1000}


def enumerate_cases(tier, shard, nshards, seed):
    files = gen.real_files()
    n = params(tier)['files']
    # deterministic seeded slice of files for this shard
    for k in range(n):
        i = (seed * 7919 + shard * 104729 + k * 15485863) % len(files)

        yield {'file': files[i], 'rsel': seed * 31 + k}

    for j, src in enumerate(gen.SYN_PROGRAMS):
        if j % nshards == shard:
            yield {'src': src, 'rsel': seed + j}

    for j, src in enumerate(gen.saturated_programs()):
        if j % nshards == shard:
            yield {'src': src, 'rsel': seed + j}

    mods = gen.snippet_modules()

    for j in range(shard, len(mods), nshards * (8 if tier == 'quick' else 1)):
        yield {'src': mods[j], 'rsel': seed + j}


def strategy(tier):
    @st.composite
    def strat(draw):
        return {'src': draw(gen.program(60)), 'rsel': draw(st.integers(0, 1 << 20))}

    return strat()


def has_pos(a):
    return getattr(a, 'lineno', None) is not None


def first_pos(a):
    """Start position of the first positioned node in the subtree (CPython), for ordering calculated-location nodes."""

    best = None

    for n in ast.walk(a):
        if has_pos(n):
            p = (n.lineno, n.col_offset)

            if best is None or p < best:
                best = p

    return best


def children_of(a):
    out = []

    for f in a._fields:
        v = getattr(a, f, None)

        if isinstance(v, ast.AST):
            out.append(v)
        elif isinstance(v, list):
            out.extend(e for e in v if isinstance(e, ast.AST))

    return out


def filt_false(a):
    if isinstance(a, ast.arguments):
        return bool(a.posonlyargs or a.args or a.vararg or a.kwonlyargs or a.kwarg)

    return has_pos(a) or isinstance(a, (ast.comprehension, ast.withitem, ast.match_case, ast.mod))  # mod: the walk root itself, located at the whole source


def filt_loc(a):
    return filt_false(a) or isinstance(a, (ast.arguments, ast.operator, ast.unaryop, ast.cmpop))


def check_tree(rootf, ctx, clause_pfx, site):
    """All C14 relations for a walk rooted at FST node `rootf`."""

    a0 = rootf.a

    def V(clause, msg):
        return Violation(f'C14.{clause}', f'{msg} (walk root {a0.__class__.__name__} at {getattr(a0, "lineno", "?")}:{getattr(a0, "col_offset", "?")})', f'{clause}:{site}')

    full = list(rootf.walk(all=True))
    ids = [id(f.a) for f in full]
    ref = list(ast.walk(a0))
    ctx.count('nodes_walked', len(full))

    if len(set(ids)) != len(ids):
        raise V('once', 'walk(all=True) yields a node twice')

    if set(ids) != {id(n) for n in ref}:
        missing = [n.__class__.__name__ for n in ref if id(n) not in set(ids)][:5]

        raise V('set', f'walk(all=True) node set != ast.walk set; missing {missing}, extra {len(set(ids) - {id(n) for n in ref})}')

    for f in full:
        if f.a.f is not f:
            raise V('identity', 'yielded FST is not .a.f')

    order = {i: k for k, i in enumerate(ids)}

    # parents before children; build the yielded tree (children lists in yield order)
    kids = {id(a0): []}

    for f in full[1:]:
        pa = f.parent.a
        kids.setdefault(id(f.a), [])

        if order[id(pa)] > order[id(f.a)]:
            raise V('parent_first', f'{f.a.__class__.__name__} yielded before its parent')

        kids.setdefault(id(pa), []).append(f.a)

    # pre-order consistency: the yield order must be exactly the DFS of the yielded tree
    def pre(a, rev=False):
        out = [a]

        for c in (reversed(kids[id(a)]) if rev else kids[id(a)]):
            out.extend(pre(c, rev))

        return out

    def post(a):
        out = []

        for c in kids[id(a)]:
            out.extend(post(c))

        out.append(a)

        return out

    def both(a):
        out = [(a, False)]

        for c in kids[id(a)]:
            out.extend(both(c))

        out.append((a, True))

        return out

    exp = pre(a0)

    if [id(x) for x in exp] != ids:
        raise V('dfs', 'walk(all=True) is not a depth-first pre-order (children not contiguous after their parent)')

    # children per parent agree with the AST's children
    for f in full:
        a = f.a

        if {id(c) for c in kids[id(a)]} != {id(c) for c in children_of(a)}:
            raise V('children', f'children yielded for {a.__class__.__name__} differ from its AST children')

        ks = kids[id(a)]
        pos = [(first_pos(c), c) for c in ks]
        last = None

        for p, c in pos:
            if p is None or isinstance(a, ast.JoinedStr):  # CPython gives the '{x=}' debug Constant a position inside the FormattedValue
                continue

            if isinstance(c, (ast.operator, ast.unaryop, ast.cmpop, ast.boolop, ast.expr_context)):
                continue

            if last is not None and p < last[0]:
                raise V('sibling_order', f'siblings of {a.__class__.__name__} at line {getattr(a, "lineno", "?")} out of source order: '
                        f'{last[1].__class__.__name__}@{last[0]} yielded before {c.__class__.__name__}@{p}')

            last = (p, c)

        idx = {id(c): k for k, c in enumerate(ks)}

        if isinstance(a, ast.BinOp) and not idx[id(a.left)] < idx[id(a.op)] < idx[id(a.right)]:
            raise V('operator_order', 'BinOp children not in left, op, right order')

        if isinstance(a, ast.UnaryOp) and not idx[id(a.op)] < idx[id(a.operand)]:
            raise V('operator_order', 'UnaryOp children not in op, operand order')

        if isinstance(a, ast.AugAssign) and not idx[id(a.target)] < idx[id(a.op)] < idx[id(a.value)]:
            raise V('operator_order', 'AugAssign children not in target, op, value order')

        if isinstance(a, ast.Compare):
            seq = [a.left]

            for o, c in zip(a.ops, a.comparators):
                seq += [o, c]

            if [idx[id(x)] for x in seq] != sorted(idx[id(x)] for x in seq):
                raise V('operator_order', 'Compare children not interleaved left, op, comparator, ...')

    def ids_of(it):
        return [id(f.a) for f in it]

    # back / leave / both / self_ / recurse
    if ids_of(rootf.walk(all=True, back=True)) != [id(x) for x in pre(a0, True)]:
        raise V('back', 'walk(back=True) != forward tree with sibling lists reversed')

    if ids_of(rootf.walk(all=True, on='leave')) != [id(x) for x in post(a0)]:
        raise V('leave', "walk(on='leave') != post-order of the forward tree")

    got = [(id(f.a), bool(lv)) for f, lv in rootf.walk(all=True, on='both')]

    if got != [(id(x), lv) for x, lv in both(a0)]:
        raise V('both', "walk(on='both') != bracketed order of the forward tree")

    if ids_of(rootf.walk(all=True, self_=False)) != ids[1:]:
        raise V('self_', 'walk(self_=False) != walk()[1:]')

    if ids_of(rootf.walk(all=True, recurse=False)) != [id(a0)] + [id(c) for c in kids[id(a0)]]:
        raise V('recurse', 'walk(recurse=False) != self + direct children')

    if ids_of(rootf.walk(all=True, recurse=False, back=True, self_=False)) != [id(c) for c in reversed(kids[id(a0)])]:
        raise V('recurse', 'walk(recurse=False, back=True, self_=False) != reversed direct children')

    # filters
    name_t = ast.Name
    set_t = {ast.Call, ast.Constant, ast.arguments, ast.Add, ast.Load}
    filters = [(False, filt_false), ('loc', filt_loc), (name_t, lambda a: a.__class__ is name_t), (set_t, lambda a: a.__class__ in set_t),
               ((lambda f: f.a.__class__.__name__ < 'K'), lambda a: a.__class__.__name__ < 'K')]

    for k, (allv, pred) in enumerate(filters):
        want = [id(x) for x in exp if pred(x)]

        if ids_of(rootf.walk(all=allv)) != want:
            raise V(f'filter{k}', f'walk(all={allv if not callable(allv) or isinstance(allv, type) else "callable"}) != filter of full walk')

        if k < 3 and ids_of(rootf.walk(all=allv, back=True)) != [id(x) for x in pre(a0, True) if pred(x)]:
            raise V(f'filter{k}', f'walk(all={allv!r}, back=True) != filter of full backward walk')

    # step_fwd / step_back chains (within top=rootf)
    for allv, pred in ((True, lambda a: True), (False, filt_false)):
        seq = []
        g = rootf.first_child(allv)
        want = [id(x) for x in exp[1:] if pred(x)]

        # first_child(all) is the first *direct* child passing the filter; the chain below is checked only when the full walk
        # agrees on where it starts
        g = rootf.step_fwd(allv, top=rootf)
        guard = 0

        while g is not None and guard <= len(full) + 2:
            seq.append(id(g.a))
            g = g.step_fwd(allv, top=rootf)
            guard += 1

        if seq != want:
            raise V('step_fwd', f'step_fwd(all={allv}) chain != forward walk ({len(seq)} vs {len(want)} nodes)')

        seq = []
        g = rootf.step_back(allv, top=rootf)
        guard = 0
        want = [id(x) for x in pre(a0, True)[1:] if pred(x)]

        while g is not None and guard <= len(full) + 2:
            seq.append(id(g.a))
            g = g.step_back(allv, top=rootf)
            guard += 1

        if seq != want:
            raise V('step_back', f'step_back(all={allv}) chain != backward walk ({len(seq)} vs {len(want)} nodes)')

    # next / prev / *_child against the direct-children lists, for every parent
    for f in full:
        a = f.a
        ks = kids[id(a)]

        for allv, pred in ((True, lambda x: True), (False, filt_false)):
            want = [id(c) for c in ks if pred(c)]
            seq = []
            g = f.first_child(allv)

            while g is not None and len(seq) <= len(ks):
                seq.append(id(g.a))
                h = g.next(allv)

                if h is not None and h.prev(allv) is not g:
                    raise V('next_prev', f'next()/prev() not mutually inverse under {a.__class__.__name__} (all={allv})')

                g = h

            if seq != want:
                raise V('next', f'first_child/next chain under {a.__class__.__name__} (all={allv}) != direct children in walk order')

            seq = []
            g = f.last_child(allv)

            while g is not None and len(seq) <= len(ks):
                seq.append(id(g.a))
                g = g.prev(allv)

            if seq != want[::-1]:
                raise V('prev', f'last_child/prev chain under {a.__class__.__name__} (all={allv}) != reversed direct children')

            seq = []
            g = None

            while (g := f.next_child(g, allv)) is not None and len(seq) <= len(ks):
                seq.append(id(g.a))

            if seq != want:
                raise V('next_child', f'next_child chain under {a.__class__.__name__} (all={allv}) != direct children')

            seq = []
            g = None

            while (g := f.prev_child(g, allv)) is not None and len(seq) <= len(ks):
                seq.append(id(g.a))

            if seq != want[::-1]:
                raise V('prev_child', f'prev_child chain under {a.__class__.__name__} (all={allv}) != reversed direct children')

    # paths
    seen = set()

    for f in full[1:]:
        p = rootf.child_path(f)
        ps = rootf.child_path(f, as_str=True)

        if rootf.child_from_path(p) is not f or rootf.child_from_path(ps) is not f:
            raise V('path', f'child_from_path(child_path(n)) is not n for {f.a.__class__.__name__} path {ps}')

        if ps in seen:
            raise V('path', f'two nodes share path {ps}')

        seen.add(ps)


def execute(case, ctx):
    if 'file' in case:
        loaded = gen.load_file(case['file'])

        if loaded is None:
            raise Skip('file_not_parseable_by_cpython')

        src = loaded[0]

        if len(src) > 120_000:
            raise Skip('file_too_large')
    else:
        src = case['src']

    try:
        root = FST(src, 'exec')
    except Exception as exc:
        raise Skip(f'build_failed:{type(exc).__name__}') from None

    site = 'walk'
    check_tree(root, ctx, 'C14', site)

    # a sample of inner nodes as walk roots
    nodes = [n for n, _, _, _ in em.iter_nodes(root.a) if not isinstance(n, ast.expr_context)]
    rsel = case.get('rsel', 0)

    for k in range(min(6, len(nodes))):
        n = nodes[(rsel * 2654435761 + k * 40503) % len(nodes)]
        check_tree(n.f, ctx, 'C14', 'walk_inner')

    inter = 0

    for n in ast.walk(root.a):
        if isinstance(n, INTERLEAVED):
            if isinstance(n, ast.Call) and n.keywords and any(isinstance(x, ast.Starred) for x in n.args):
                inter += 1
            elif isinstance(n, ast.Dict) and any(k is None for k in n.keys) and len(n.keys) > 1:
                inter += 1
            elif isinstance(n, (ast.Compare, ast.BoolOp)):
                inter += 1
            elif isinstance(n, ast.arguments) and (n.defaults or n.kw_defaults):
                inter += 1
            elif isinstance(n, (ast.FunctionDef, ast.AsyncFunctionDef, ast.ClassDef)) and n.decorator_list:
                inter += 1
            elif isinstance(n, (ast.ListComp, ast.SetComp, ast.DictComp, ast.GeneratorExp, ast.MatchMapping, ast.MatchClass)):
                inter += 1

    if inter >= 2:
        ctx.mark_nontrivial(src, {'source_head': src[:300], 'nodes': len(nodes), 'interleaved_nodes': inter, 'file': case.get('file')})
