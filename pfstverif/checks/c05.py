"""C05 - parsing is lossless and agrees with Python's parser in every parse mode."""

from __future__ import annotations

import ast
import itertools
import io
import re
import tokenize
import typing

from hypothesis import strategies as st

from .. import gen
from ..editmachine import FST
from ..oracle import T, _wrap_parse, balanced, first_diff
from ..runner import Skip, Violation
from .c06 import Src, multibyte_variant

ID = 'C05'
LEVEL = 'exploration'
TECHNIQUE = 'differential property-based testing: pfst parse modes vs CPython parses of wrapper embeddings written in /verif'
RULE = ('Valid inputs: whole programs (real windows, snippets, templates, layout-mutated, multi-byte variants) in exec mode and, '
        'for every fragment mode, every extractable instance in those programs cut out by CPython extents (expressions, slices, '
        'call arguments, keywords, argument lists, aliases, with-items, handlers, cases, patterns, comprehension clauses and ifs, '
        'decorators, assignment-target prefixes, type parameters, operators), optionally decorated with leading/trailing comment or '
        'blank lines. Oracle: FST(src, mode).src == src; the resulting tree equals (ast.dump with positions, shifted by the wrapper '
        'prefix) the sub-tree at the embedding path of a wrapper construct parsed by CPython; a fragment extracted for exactly '
        'that mode must be accepted. Invalid inputs: token-level mutations (delete, duplicate, swap, stray token, unbalanced '
        'bracket `X) + (X`) and every fragment fed to other modes: if pfst accepts, the fragment must be bracket-balanced and some '
        'wrapper of that mode must parse it to an equal tree, otherwise it was "parsed into something else because of the wrapper". '
        'Non-trivial = fragment from a nested position (not column 0), multi-line, with a multi-byte character, decorated with '
        'comments, or a mutated / wrong-mode input; distinct by (mode, fragment) hash.')
ASSUMPTIONS = [
    'the wrapper table in this file is the definition of "the full construct that contains the fragment"; modes without a wrapper '
    'are reported as uncovered (coverage.modes_uncovered)',
    'rejection of a valid fragment is asserted only for fragments CPython itself produced for exactly that mode',
    'match_case / ExceptHandler fragments with multi-line strings or backslash continuations are skipped (re-indentation would alter them)',
]

# ----------------------------------------------------------------------------------------------------------------------
# reference embeddings per mode: list of (prefix, suffix, path, cpython mode, post) ; post(node_or_list) -> comparable or None

P = '(\n'
Q = '\n)'


def _one(lst):
    return lst[0] if isinstance(lst, list) and len(lst) == 1 else None


def _call_merged(call):
    if not isinstance(call, ast.Call):
        return None

    return sorted(call.args + call.keywords, key=lambda n: (n.lineno, n.col_offset))


def _sole_arglike(call):
    m = _call_merged(call)

    return m[0] if m and len(m) == 1 else None


def _sole_arg(call):
    return call.args[0] if isinstance(call, ast.Call) and len(call.args) == 1 and not call.keywords else None


def _sole_kw(call):
    return call.keywords[0] if isinstance(call, ast.Call) and len(call.keywords) == 1 and not call.args else None


def _args_sole_arg(a):
    if a.posonlyargs or a.vararg or a.kwonlyargs or a.kwarg or a.defaults or len(a.args) != 1:
        return None

    return a.args[0]


def _ident(x):
    return x


def _is(cls):
    return lambda x: x if isinstance(x, cls) else None


def _not(cls):
    return lambda x: None if isinstance(x, cls) else x


def _matchclass_attrlikes(p):
    if not isinstance(p, ast.MatchClass):
        return None

    return {'patterns': p.patterns, 'kwd_attrs': p.kwd_attrs, 'kwd_patterns': p.kwd_patterns}


def _expr_post(x, frag=None):
    if isinstance(x, ast.Starred):
        return None

    if isinstance(x, (ast.Tuple, ast.MatchSequence)) and x.lineno == 0:  # unparenthesised tuple took the wrapper's parentheses as its own: give it the extent of its tokens
        toks = []

        try:  # tokenised inside parentheses: no INDENT / DEDENT bookkeeping for continuation lines that step back; rows shifted back by one
            for t in tokenize.generate_tokens(io.StringIO('(\n' + frag + '\n)').readline):
                if t.type not in (tokenize.NL, tokenize.NEWLINE, tokenize.COMMENT, tokenize.INDENT, tokenize.DEDENT, tokenize.ENDMARKER):
                    toks.append(t)
        except tokenize.TokenError:
            pass  # EOF after a trailing backslash continuation: the tokens so far are all there are

        toks = toks[1:-1] if toks and toks[-1].string == ')' and toks[-1].start[0] == frag.count('\n') + 3 else toks[1:]
        lines = frag.split('\n')
        x.lineno, x.col_offset = toks[0].start[0] - 1, len(lines[toks[0].start[0] - 2][:toks[0].start[1]].encode())
        x.end_lineno, x.end_col_offset = toks[-1].end[0] - 1, len(lines[toks[-1].end[0] - 2][:toks[-1].end[1]].encode())

    return x


EXPR_W = [(P, Q, ('body',), 'eval', _expr_post),
          ('[\n', '\n]', ('body', 0, 'value', 'elts'), 'exec', lambda l: _one(l) if isinstance(_one(l), ast.Starred) else None)]
SLICE_W = [('_[\n', '\n]', ('body', 0, 'value', 'slice'), 'exec', _ident)]
ARGLIKE_W = [('_(\n', '\n)', ('body', 0, 'value'), 'exec', _sole_arg)]

WRAPPERS = {
    'exec': [('', '', (), 'exec', _ident)],
    'stmts': [('', '', (), 'exec', _ident)],
    'eval': [('', '', (), 'eval', _ident)],
    'single': [('', '', (), 'single', _ident), ('', '\n', (), 'single', _ident)],  # CPython's 'single' start rule wants the line break after a compound statement
    'stmt': [('', '', ('body',), 'exec', _one)],
    'expr': EXPR_W,
    'expr_arglike': ARGLIKE_W + EXPR_W,
    'expr_slice': SLICE_W + EXPR_W,  # documented as "same as 'expr' except ..." so whatever 'expr' accepts (e.g. bare `yield`) is accepted too
    'expr_all': EXPR_W + SLICE_W + ARGLIKE_W,
    'Tuple_elt': EXPR_W + SLICE_W + ARGLIKE_W,
    'Tuple': [(P, Q, ('body',), 'eval', _expr_post), ('_[\n', '\n]', ('body', 0, 'value', 'slice'), 'exec', _is(ast.Tuple))],
    '_Assign_targets': [('_ = ', ' _', ('body', 0, 'targets'), 'exec', lambda l: l[1:]), ('_ = ', ' = _', ('body', 0, 'targets'), 'exec', lambda l: l[1:])],  # leading placeholder target so that leading spaces of the fragment are harmless
    '_decorator_list': [('', '\nclass _: pass', ('body', 0, 'decorator_list'), 'exec', _ident)],
    '_arglike': [('_(\n', '\n)', ('body', 0, 'value'), 'exec', _sole_arglike)],
    '_arglikes': [('_(\n', '\n)', ('body', 0, 'value'), 'exec', _call_merged)],
    'boolop': [('a ', ' b', ('body', 0, 'value', 'op'), 'exec', _is(ast.boolop)), ('(a\n', '\nb)', ('body', 0, 'value', 'op'), 'exec', _is(ast.boolop))],
    'operator': [('a ', ' b', ('body', 0, 'value', 'op'), 'exec', _is(ast.operator)), ('a ', ' b', ('body', 0, 'op'), 'exec', _is(ast.operator)),
                 ('(a\n', '\nb)', ('body', 0, 'value', 'op'), 'exec', _is(ast.operator)), ('a \\\n', '\\\nb', ('body', 0, 'op'), 'exec', _is(ast.operator))],
    'unaryop': [('', ' a', ('body', 0, 'value', 'op'), 'exec', _is(ast.unaryop)), ('(\n', '\na)', ('body', 0, 'value', 'op'), 'exec', _is(ast.unaryop))],
    'cmpop': [('a ', ' b', ('body', 0, 'value', 'ops'), 'exec', _one), ('(a\n', '\nb)', ('body', 0, 'value', 'ops'), 'exec', _one)],
    'comprehension': [('[_ \n', '\n]', ('body', 0, 'value', 'generators'), 'exec', _one)],
    '_comprehensions': [('[_ \n', '\n]', ('body', 0, 'value', 'generators'), 'exec', _ident)],
    '_comprehension_ifs': [('[_ for _ in _ \n', '\n]', ('body', 0, 'value', 'generators', 0, 'ifs'), 'exec', _ident)],
    'arguments': [('def _(\n', '\n): pass', ('body', 0, 'args'), 'exec', _ident)],
    'arguments_lambda': [('(lambda\n', '\n: _)', ('body', 0, 'value', 'args'), 'exec', _ident), ('(lambda', ': _)', ('body', 0, 'value', 'args'), 'exec', _ident)],
    'arg': [('def _(\n', '\n): pass', ('body', 0, 'args'), 'exec', _args_sole_arg),
            ('def _(*\n', '\n): pass', ('body', 0, 'args', 'vararg'), 'exec', _ident)],  # an arg with a starred annotation is the vararg
    'keyword': [('_(\n', '\n)', ('body', 0, 'value'), 'exec', _sole_kw)],
    'alias': [('from _ import (\n', '\n)', ('body', 0, 'names'), 'exec', _one), ('import ', '', ('body', 0, 'names'), 'exec', _one),
              ('from _ import ', '', ('body', 0, 'names'), 'exec', _one)],
    '_aliases': [('from _ import (\n', '\n)', ('body', 0, 'names'), 'exec', _ident), ('import ', '', ('body', 0, 'names'), 'exec', _ident),
                 ('from _ import ', '', ('body', 0, 'names'), 'exec', _ident)],
    'Import_name': [('import ', '', ('body', 0, 'names'), 'exec', _one)],
    '_Import_names': [('import ', '', ('body', 0, 'names'), 'exec', _ident)],
    'ImportFrom_name': [('from _ import (\n', '\n)', ('body', 0, 'names'), 'exec', _one), ('from _ import ', '', ('body', 0, 'names'), 'exec', _one)],
    '_ImportFrom_names': [('from _ import (\n', '\n)', ('body', 0, 'names'), 'exec', _ident), ('from _ import ', '', ('body', 0, 'names'), 'exec', _ident)],
    'withitem': [('with (\n', '\n): pass', ('body', 0, 'items'), 'exec', _one), ('with ', ': pass', ('body', 0, 'items'), 'exec', _one)],
    '_withitems': [('with (\n', '\n): pass', ('body', 0, 'items'), 'exec', _ident), ('with ', ': pass', ('body', 0, 'items'), 'exec', _ident)],
    'pattern': [('match _:\n case ', ': pass', ('body', 0, 'cases', 0, 'pattern'), 'exec', _ident),
                ('match _:\n case [', ']: pass', ('body', 0, 'cases', 0, 'pattern', 'patterns'), 'exec', lambda l: _one(l) if isinstance(_one(l), ast.MatchStar) else None),
                ('match _:\n case (\n', '\n): pass', ('body', 0, 'cases', 0, 'pattern'), 'exec', _expr_post)],
    '_pattern_attrlikes': [('match _:\n case C(\n', '\n): pass', ('body', 0, 'cases', 0, 'pattern'), 'exec', _matchclass_attrlikes)],
    'type_param': [('def _[\n', '\n](): pass', ('body', 0, 'type_params'), 'exec', _one)],
    '_type_params': [('def _[\n', '\n](): pass', ('body', 0, 'type_params'), 'exec', _ident)],
    'ExceptHandler': [('try: pass\n', '', ('body', 0, 'handlers'), 'exec', _one)],
    '_ExceptHandlers': [('try: pass\n', '', ('body', 0, 'handlers'), 'exec', _ident), ('try: pass\n', '\nfinally: pass', ('body', 0, 'handlers'), 'exec', _ident)],
}

CONTAINER_FIELD = {'_Assign_targets': 'targets', '_decorator_list': 'decorator_list', '_arglikes': 'arglikes', '_comprehensions': 'generators',
                   '_comprehension_ifs': 'ifs', '_aliases': 'names', '_Import_names': 'names', '_ImportFrom_names': 'names', '_withitems': 'items',
                   '_type_params': 'type_params', '_ExceptHandlers': 'handlers', '_match_cases': 'cases'}


def all_modes():
    from fst import parsex

    out = []

    for arg in typing.get_args(parsex.Mode):
        for lit in typing.get_args(arg):
            if isinstance(lit, str):
                out.append(lit)

    return out


def ref_results(mode, frag):
    """List of reference results from wrappers that CPython accepts. Each result is an AST, a list of ASTs or a dict of
    lists (attrlikes)."""

    out = []

    if mode in ('match_case', '_match_cases'):
        if "'''" in frag or '"""' in frag or '\\\n' in frag:
            return None

        try:
            m = ast.parse('match _:\n' + '\n'.join(' ' + l if l.strip() else l for l in frag.split('\n')))
        except (SyntaxError, ValueError, RecursionError):
            return out

        cases = m.body[0].cases if len(m.body) == 1 and isinstance(m.body[0], ast.Match) else None

        if cases is None:
            return out

        for c in cases:
            for n in ast.walk(c):
                if hasattr(n, 'lineno'):
                    n.lineno -= 1
                    n.end_lineno -= 1
                    n.col_offset -= 1
                    n.end_col_offset -= 1

        res = cases if mode == '_match_cases' else _one(cases)

        return [res] if res is not None else out

    core, lead = core_of(frag)

    if mode in ('alias', '_aliases', 'Import_name', '_Import_names', 'ImportFrom_name', '_ImportFrom_names') and '\n' in (core or frag) \
            and '#' not in frag and '"' not in frag and "'" not in frag:
        base = core if core is not None else frag
        core = '\n'.join((l if l.rstrip().endswith('\\') or i == base.count('\n') else l + ' \\') for i, l in enumerate(base.split('\n')))  # positions unchanged

    for prefix, suffix, path, cmode, post in WRAPPERS.get(mode, ()):
        node = None

        for text, dl in ((frag, 0), (core, lead)):
            if text is None or (dl == 0 and text is core and node is None and False):
                continue

            try:
                node = _wrap_parse(prefix, text, suffix, path, cmode)
            except (SyntaxError, ValueError, RecursionError, IndexError, AttributeError, TypeError, MemoryError):
                node = None

                continue

            if dl or text is not frag:
                for top in (node if isinstance(node, list) else [node]):
                    if isinstance(top, ast.AST):
                        for n in ast.walk(top):
                            if hasattr(n, 'lineno'):
                                n.lineno += dl
                                n.end_lineno += dl

            break

        if node is None:
            continue

        try:
            res = post(node, text) if post is _expr_post else post(node)
        except Exception:
            res = None

        if res is not None:
            out.append(res)

    return out


def core_of(frag):
    """Fragment without leading / trailing blank or comment-only lines, without a trailing comment on its last line and without a
    trailing backslash continuation (all of which pfst documents / tests as accepted trivia around a fragment), plus the number of
    leading lines removed. None if nothing would change."""

    lines = frag.split('\n')
    lead = 0

    while lead < len(lines) - 1 and (not lines[lead].strip() or lines[lead].lstrip().startswith('#') or lines[lead].strip() == '\\'):
        lead += 1

    end = len(lines)

    while end - 1 > lead and (not lines[end - 1].strip() or lines[end - 1].lstrip().startswith('#')):
        end -= 1

    body = lines[lead:end]

    if body:
        try:
            toks = list(tokenize.generate_tokens(io.StringIO('\n'.join(body)).readline))
        except (tokenize.TokenError, IndentationError, SyntaxError):
            toks = []

        for t in toks:
            if t.type == tokenize.COMMENT and t.start[0] == len(body):
                body[-1] = body[-1][:t.start[1]]

        body[-1] = body[-1].rstrip()

        if body[-1].endswith('\\') and not body[-1].endswith('\\\\'):
            body[-1] = body[-1][:-1].rstrip()

        # the first line keeps its leading spaces only if nothing was removed above it (columns must stay comparable)

    core = '\n'.join(body)

    return (core, lead) if core != frag else (None, 0)


def significant(frag):
    try:
        return [t for t in tokenize.generate_tokens(io.StringIO(frag).readline)
                if t.type not in (tokenize.NL, tokenize.NEWLINE, tokenize.COMMENT, tokenize.INDENT, tokenize.DEDENT, tokenize.ENDMARKER)]
    except (tokenize.TokenError, IndentationError, SyntaxError):
        return None


def dump_result(x):
    if isinstance(x, ast.AST):
        return T(x)
    if isinstance(x, list):
        return '[' + ', '.join(dump_result(e) for e in x) + ']'
    if isinstance(x, dict):
        return '{' + ', '.join(f'{k}: {dump_result(v)}' for k, v in x.items()) + '}'

    return repr(x)


def dump_pfst(mode, a):
    if mode in CONTAINER_FIELD and a.__class__.__name__.startswith('_'):
        return dump_result(getattr(a, CONTAINER_FIELD[mode]))

    if mode == '_pattern_attrlikes':
        return dump_result({'patterns': a.patterns, 'kwd_attrs': a.kwd_attrs, 'kwd_patterns': a.kwd_patterns})

    if mode in ('boolop', 'operator', 'unaryop', 'cmpop'):
        return a.__class__.__name__ + '()'

    return T(a)


# ----------------------------------------------------------------------------------------------------------------------
# fragment extraction (CPython extents only)


def top_level_comma(frag):
    depth = 0

    try:
        for t in tokenize.generate_tokens(io.StringIO('(\n' + frag + '\n)').readline):
            if t.type == tokenize.OP:
                if t.string in '([{':
                    depth += 1
                elif t.string in ')]}':
                    depth -= 1
                elif t.string == ',' and depth == 1:
                    return True
    except (tokenize.TokenError, IndentationError, SyntaxError):
        return ',' in frag

    return False


def seg(S, a, b=None):
    b = b or a
    x = ast.AST()
    x.lineno, x.col_offset, x.end_lineno, x.end_col_offset = a.lineno, a.col_offset, b.end_lineno, b.end_col_offset

    return S.segment(x)


def between_tokens(S, start_pos, end_pos):
    """Raw source text between two char positions (row0, col)."""

    (sl, sc), (el, ec) = start_pos, end_pos

    if sl == el:
        return S.lines[sl][sc:ec]

    return '\n'.join([S.lines[sl][sc:]] + S.lines[sl + 1:el] + [S.lines[el][:ec]])


def extract(S, tree):
    """-> list of (mode, fragment, nested: bool)."""

    out = []

    def add(mode, frag, nested=True):
        if frag is not None and len(frag) < 600:
            out.append((mode, frag, nested))

    def tok_after(pos, s):
        i = S.first_code_at_or_after(pos)

        while i < len(S.code) and S.code[i][1] != s:
            i += 1

        return i if i < len(S.code) else None

    for n in ast.walk(tree):
        col0 = getattr(n, 'col_offset', 1) == 0
        oneline = getattr(n, 'lineno', 0) == getattr(n, 'end_lineno', 1)

        if isinstance(n, ast.expr):
            if isinstance(n, ast.Slice):
                add('expr_slice', seg(S, n))
                add('expr_all', seg(S, n))
            elif isinstance(n, ast.Starred):
                add('expr_all', seg(S, n))
                add('Tuple_elt', seg(S, n))
            elif not isinstance(n, (ast.FormattedValue,)):
                s = seg(S, n)
                add('expr', s)

                if isinstance(n, ast.Tuple) and (top_level_comma(s) or s.startswith('(')):  # 'a[*b]': the slice is a Tuple only by its position in the subscript
                    add('Tuple', s)

        if isinstance(n, (ast.JoinedStr, ast.FormattedValue)):
            continue

        if isinstance(n, ast.Subscript):
            add('expr_slice', seg(S, n.slice))
        elif isinstance(n, ast.Call):
            for a in n.args:
                add('expr_arglike', seg(S, a))
                add('_arglike', seg(S, a))

            for k in n.keywords:
                add('keyword', seg(S, k))
                add('_arglike', seg(S, k))

            merged = sorted(n.args + n.keywords, key=lambda x: (x.lineno, x.col_offset))

            if merged and not (len(merged) == 1 and isinstance(merged[0], ast.GeneratorExp)):
                add('_arglikes', seg(S, merged[0], merged[-1]))
        elif isinstance(n, (ast.FunctionDef, ast.AsyncFunctionDef, ast.ClassDef)):
            if n.decorator_list and col0:
                d0, d1 = n.decorator_list[0], n.decorator_list[-1]
                i = S.first_code_at_or_after(S.cpos(d0.lineno, d0.col_offset))

                while i > 0 and S.code[i][1] != '@':
                    i -= 1

                j = S.last_code_ending_at_or_before(S.cpos(d1.end_lineno, d1.end_col_offset))

                while j + 1 < len(S.code) and S.code[j + 1][1] == ')':
                    j += 1

                add('_decorator_list', between_tokens(S, S.code[i][2], S.code[j][3]), False)

            tps = getattr(n, 'type_params', None)

            if tps:
                add('_type_params', seg(S, tps[0], tps[-1]))

                for tp in tps:
                    add('type_param', seg(S, tp))

            if not isinstance(n, ast.ClassDef):
                a = n.args
                allargs = [*a.posonlyargs, *a.args, *([a.vararg] if a.vararg else []), *a.kwonlyargs, *([a.kwarg] if a.kwarg else [])]

                for x in a.posonlyargs + a.args + a.kwonlyargs:
                    add('arg', seg(S, x))

                if allargs:
                    # text between the def's parentheses: find '(' after name (and type params) and its matching ')'
                    first = min(allargs, key=lambda x: (x.lineno, x.col_offset))
                    i = S.first_code_at_or_after(S.cpos(first.lineno, first.col_offset))
                    depth = 0
                    j = i

                    while j > 0:
                        j -= 1
                        t = S.code[j][1]

                        if t in ')]}':
                            depth += 1
                        elif t in '([{':
                            if depth == 0:
                                break

                            depth -= 1

                    k = j
                    depth = 0

                    while k < len(S.code):
                        t = S.code[k][1]

                        if t in '([{':
                            depth += 1
                        elif t in ')]}':
                            depth -= 1

                            if depth == 0:
                                break

                        k += 1

                    if S.code[j][1] == '(' and k < len(S.code):
                        add('arguments', between_tokens(S, S.code[j][3], S.code[k][2]))
        elif isinstance(n, ast.Lambda):
            a = n.args
            allargs = [*a.posonlyargs, *a.args, *([a.vararg] if a.vararg else []), *a.kwonlyargs, *([a.kwarg] if a.kwarg else [])]

            if allargs:
                i = S.first_code_at_or_after(S.cpos(n.lineno, n.col_offset))
                b = S.first_code_at_or_after(S.cpos(n.body.lineno, n.body.col_offset))

                while b > i and S.code[b][1] != ':':
                    b -= 1

                # the ':' of the lambda is the last ':' at depth 0 before the body: search forward with depth instead
                depth = 0
                k = i + 1

                while k < len(S.code):
                    t = S.code[k][1]

                    if t in '([{':
                        depth += 1
                    elif t in ')]}':
                        depth -= 1
                    elif t == ':' and depth == 0:
                        break

                    k += 1

                if S.code[i][1] == 'lambda' and k < len(S.code):
                    add('arguments_lambda', between_tokens(S, S.code[i][3], S.code[k][2]))
        elif isinstance(n, ast.Import):
            for al in n.names:
                add('alias', seg(S, al))
                add('Import_name', seg(S, al))

            add('_aliases', seg(S, n.names[0], n.names[-1]))
            add('_Import_names', seg(S, n.names[0], n.names[-1]))
        elif isinstance(n, ast.ImportFrom):
            for al in n.names:
                add('alias', seg(S, al))
                add('ImportFrom_name', seg(S, al))

            add('_aliases', seg(S, n.names[0], n.names[-1]))
            add('_ImportFrom_names', seg(S, n.names[0], n.names[-1]))
        elif isinstance(n, (ast.With, ast.AsyncWith)):
            i = S.first_code_at_or_after(S.cpos(n.lineno, n.col_offset))

            while S.code[i][1] != 'with':
                i += 1

            b0 = n.body[0]
            j = S.first_code_at_or_after(S.cpos(b0.lineno, b0.col_offset)) - 1

            while j > i and S.code[j][1] != ':':
                j -= 1

            text = between_tokens(S, S.code[i][3], S.code[j][2]).strip()

            if S.code[i + 1][1] == '(':  # parenthesised-with syntax? then the parentheses belong to the With statement, not to the items
                depth = 0
                m = i + 1

                while m < j:
                    if S.code[m][1] in '([{':
                        depth += 1
                    elif S.code[m][1] in ')]}':
                        depth -= 1

                        if depth == 0:
                            break

                    m += 1

                if m == j - 1 and (len(n.items) > 1 or n.items[0].optional_vars is not None or S.code[m - 1][1] == ','):
                    text = between_tokens(S, S.code[i + 1][3], S.code[m][2])
                    text = text.strip('\n') if '\n' in text else text.strip()

            add('_withitems', text)

            if len(n.items) == 1:
                add('withitem', text)
        elif isinstance(n, (ast.Try, ast.TryStar)):
            if n.handlers and (col0 or all(h.lineno == h.end_lineno for h in n.handlers)):
                for h in n.handlers:
                    if col0 or h.lineno == h.end_lineno:
                        add('ExceptHandler', seg(S, h), not col0)

                if col0:
                    add('_ExceptHandlers', seg(S, n.handlers[0], n.handlers[-1]), False)
        elif isinstance(n, ast.Match):
            for c in n.cases:
                add('pattern', seg(S, c.pattern))

            ind = None
            c0 = n.cases[0]
            i = S.first_code_at_or_after(S.cpos(c0.pattern.lineno, c0.pattern.col_offset))

            while i > 0 and S.code[i][1] != 'case':
                i -= 1

            ind = S.code[i][2][1]
            # dedented text of all cases
            first_ln = S.code[i][2][0]
            last_ln = n.end_lineno - 1
            block = S.lines[first_ln:last_ln + 1]

            if all(not l.strip() or l[:ind].strip() == '' for l in block):
                text = '\n'.join(l[ind:] for l in block)
                add('_match_cases', text)

                if len(n.cases) == 1:
                    add('match_case', text)
        elif isinstance(n, ast.MatchClass):
            parts = n.patterns + n.kwd_patterns

            if parts:
                i = S.first_code_at_or_after(S.cpos(n.cls.end_lineno, n.cls.end_col_offset))
                k = S.last_code_ending_at_or_before(S.cpos(n.end_lineno, n.end_col_offset))

                if i < len(S.code) and S.code[i][1] == '(' and S.code[k][1] == ')':
                    add('_pattern_attrlikes', between_tokens(S, S.code[i][3], S.code[k][2]))
        elif isinstance(n, (ast.ListComp, ast.SetComp, ast.GeneratorExp, ast.DictComp)):
            elt_end = (n.value if isinstance(n, ast.DictComp) else n.elt)
            i = S.first_code_at_or_after(S.cpos(elt_end.end_lineno, elt_end.end_col_offset))

            while i < len(S.code) and S.code[i][1] == ')':
                i += 1

            k = S.last_code_ending_at_or_before(S.cpos(n.end_lineno, n.end_col_offset))

            if S.code[k][1] in ')]}' and i < k:
                text = between_tokens(S, S.code[i][2], S.code[k - 1][3])
                add('_comprehensions', text)

                if len(n.generators) == 1:
                    add('comprehension', text)

                g = n.generators[-1]

                if g.ifs:
                    j = S.first_code_at_or_after(S.cpos(g.iter.end_lineno, g.iter.end_col_offset))

                    while j < len(S.code) and S.code[j][1] == ')':
                        j += 1

                    if j < k and S.code[j][1] == 'if':
                        add('_comprehension_ifs', between_tokens(S, S.code[j][2], S.code[k - 1][3]))
        elif isinstance(n, ast.Assign) and oneline:
            v = n.value
            i = S.first_code_at_or_after(S.cpos(v.lineno, v.col_offset))

            while i > 0 and S.code[i][1] != '=':
                i -= 1

            add('_Assign_targets', between_tokens(S, S.cpos(n.lineno, n.col_offset), S.code[i][3]))
        elif isinstance(n, ast.BinOp):
            add('operator', [k for k, v in OPS.items() if v is n.op.__class__][0])
        elif isinstance(n, ast.stmt) and col0 and not isinstance(n, (ast.FunctionDef, ast.AsyncFunctionDef, ast.ClassDef)):
            add('stmt', seg(S, n), False)

    return out


OPS = {'+': ast.Add, '-': ast.Sub, '*': ast.Mult, '@': ast.MatMult, '/': ast.Div, '%': ast.Mod, '**': ast.Pow, '<<': ast.LShift, '>>': ast.RShift,
       '|': ast.BitOr, '^': ast.BitXor, '&': ast.BitAnd, '//': ast.FloorDiv}
FIXED_FRAGS = [('boolop', 'and'), ('boolop', 'or'), ('unaryop', 'not'), ('unaryop', '-'), ('unaryop', '~'), ('unaryop', '+'),
               ('cmpop', 'is not'), ('cmpop', 'not in'), ('cmpop', '<='), ('cmpop', 'in'), ('cmpop', 'is  not'), ('cmpop', '=='),
               ('arguments', ''), ('arguments_lambda', ''), ('_arglikes', ''), ('_aliases', ''), ('_withitems', ''), ('_type_params', ''),
               ('_comprehensions', ''), ('_comprehension_ifs', ''), ('_decorator_list', ''), ('_ExceptHandlers', ''), ('_match_cases', ''),
               ('_Assign_targets', ''), ('stmts', ''), ('exec', '')] + [('operator', k) for k in OPS]
STRAY = (')', '(', ',', '=', 'if', ':', '+', 'x', ']', 'for', '*', '@', ';', '1', 'as', '.', '\\',
         'if x', 'as y', 'for x in y', ': pass', '.z', '= 1', '-> r', 'else z', ', *', 'in w', 'not', 'x y', '):', ')(x', '](x', '}{', 'and', ':= 1', '[0]', '(x)')

# ----------------------------------------------------------------------------------------------------------------------


def params(tier):
    if tier == 'quick':
        return {'examples': 500, 'wall': 100, 'case_timeout': 60}

    return {'examples': 12000, 'wall': 600, 'case_timeout': 120}


def floors(tier):
    return {'distinct_nontrivial': 3000 if tier == 'quick' else 50000}


def strategy(tier):
    @st.composite
    def strat(draw):
        case = {'src': draw(gen.program(50)), 'sel': draw(st.integers(0, 1 << 30))}

        if draw(st.integers(0, 2)) == 0:
            case['mb'] = draw(st.integers(0, 3))

        return case

    return strat()


def enumerate_cases(tier, shard, nshards, seed):
    if shard == 0:
        yield {'fixed': True, 'sel': seed}

    for j, src in enumerate(gen.SYN_PROGRAMS):
        if j % nshards == shard:
            yield {'src': src, 'sel': seed * 977 + j}

    # synthetic sequences with non-ASCII elements in every sequence-capable mode: one line, broken after a comma, leading newline / indent,
    # trailing comma, comments (byte columns != character columns on the last line is where position fix-ups go wrong)
    elems = ('é', "'üü'", 'f(日本)', 'a.ñ', '[é, ö]', 'x')
    seps = (', ', ',\n', ' ,\n  ', ',  # ç\n')
    k = 0

    for a, b in itertools.product(elems, repeat=2):
        for sep in seps:
            for lead, trail in (('', ''), ('', ','), ('\n ', ''), ('', ' ,  # ñ')):
                body = f'{lead}{a}{sep}{b}{trail}'

                for mode, frag in (('expr', body), ('expr_all', body), ('expr_slice', body), ('Tuple', body), ('Tuple_elt', body), ('pattern', body.replace('f(', 'C(').replace("'üü'", '1')),
                                   ('_arglikes', body), ('_withitems', body), ('_decorator_list', '@' + a + '\n@' + b), ('_comprehension_ifs', f'if {a}\nif {b}'),
                                   ('_Assign_targets', f'{a} = {b} =' if a[0] not in "'f[" and b[0] not in "'f[" else 'é = ö ='), ('_type_params', 'Té, *Uñ' + trail),
                                   ('_aliases', f'é{sep}ñ as ö' if '#' not in sep else 'é, ñ as ö'), ('arguments', f'é{sep}ñ=1{trail}'), ('_pattern_attrlikes', f'é{sep}ñ=ö{trail}')):
                    k += 1

                    if k % nshards == shard and mode in MODES_SET:
                        yield {'mode': mode, 'frag': frag, 'sel': seed + k, 'synthetic': True}

    # sequences with a multi-line element that is not the first one, followed on its closing line by further elements (order of the merged
    # positional / keyword lists, positions after a multi-line element)
    pos_el = ('a', 'g(\n x\n)', '[1,\n 2]', '*s', 'é')
    kw_el = ('k=1', 'm={\n 1: 2,\n}', '**d')

    for n in (2, 3, 4):
        for combo in itertools.product(pos_el + kw_el, repeat=n):
            if not any('\n' in e for e in combo[:-1]) and n > 2:
                continue

            body = ', '.join(combo)

            try:
                ast.parse(f'f({body})')
            except SyntaxError:
                continue

            k += 1

            if k % nshards != shard:
                continue

            yield {'mode': '_arglikes', 'frag': body, 'sel': seed + k, 'synthetic': True}

            if all(e in pos_el for e in combo):
                for mode in ('expr', 'Tuple', 'expr_slice', '_withitems', '_decorator_list'):
                    frag = body if mode != '_decorator_list' else '\n'.join('@' + e for e in combo if not e.startswith('*'))

                    if mode in MODES_SET and frag:
                        yield {'mode': mode, 'frag': frag, 'sel': seed + k, 'synthetic': True}

    snips = gen.snippets()

    for j in range(shard, len(snips), nshards * (4 if tier == 'quick' else 1)):
        mode, code = snips[j]

        if mode and mode in MODES_SET and len(code) < 800:
            yield {'mode': mode, 'frag': code, 'sel': seed + j}


MODES_SET = set()


def _init_modes():
    global MODES_SET

    if not MODES_SET:
        MODES_SET = set(all_modes())


_init_modes()


def check_fragment(mode, frag, expect_valid, ctx, origin):
    """The C05 oracle for one (mode, source)."""

    ctx.count('parses')
    ctx.count(f'mode:{mode}')

    try:
        f = FST(frag, mode)
        exc = None
    except Exception as e:
        f = None
        exc = e

    sig = f'{mode}:{origin}'

    if f is not None:
        ctx.count('accepted')

        if f.src != frag or '\n'.join(f.lines) != frag:
            raise Violation('C05.lossless', f'FST({frag!r}, {mode!r}).src == {f.src!r}', sig)

    if mode in ('all', 'strict'):
        return  # guessing modes: only losslessness here; the result kind is covered when the concrete mode is checked

    refs = ref_results(mode, frag)

    if refs is None:
        ctx.count('skipped:no_safe_embedding')

        return

    if mode not in WRAPPERS and mode not in ('match_case', '_match_cases'):
        ctx.count(f'uncovered_mode:{mode}')

        return

    if f is None:
        if expect_valid and refs:
            if isinstance(exc, (RecursionError, MemoryError)):
                return

            raise Violation('C05.rejected_valid', f'FST({frag!r}, {mode!r}) raised {exc!r} but the fragment was cut from a valid program for this mode '
                            f'and CPython accepts it in the embedding', sig)

        ctx.count('rejected')

        return

    got = dump_pfst(mode, f.a)

    if not balanced(frag) and frag.strip():
        raise Violation('C05.accepted_unbalanced', f'FST({frag!r}, {mode!r}) accepted a bracket-unbalanced fragment -> {got[:300]}', sig)

    if not refs:
        if significant(frag) == [] and mode in ('exec', 'stmts') + tuple(CONTAINER_FIELD) + ('arguments', 'arguments_lambda', '_pattern_attrlikes'):
            ctx.count('empty_fragment_accepted')

            return

        raise Violation('C05.accepted_invalid', f'FST({frag!r}, {mode!r}) accepted (-> {got[:300]}) but no CPython embedding of this mode parses it', sig)

    if significant(frag) == [] and mode in tuple(CONTAINER_FIELD):
        if got != '[]':
            raise Violation('C05.tree', f'FST({frag!r}, {mode!r}) of an empty fragment gives {got[:200]}', sig)

        return

    wants = [dump_result(r) if mode not in ('boolop', 'operator', 'unaryop', 'cmpop') else r.__class__.__name__ + '()' for r in refs]

    if got not in wants:
        # positions of empty-container roots etc. are not in `got` for containers; so any difference is real
        raise Violation('C05.tree', f'FST({frag!r}, {mode!r}) tree differs from CPython embedding: {first_diff(got, wants[0])}', sig)


def mutants(frag, sel):
    """A few token-level mutations of a fragment (deterministic in sel)."""

    try:
        toks = [t for t in tokenize.generate_tokens(io.StringIO(frag).readline) if t.type not in (tokenize.ENDMARKER,)]
    except (tokenize.TokenError, IndentationError, SyntaxError):
        return []

    sig = [t for t in toks if t.type not in (tokenize.NL, tokenize.NEWLINE, tokenize.INDENT, tokenize.DEDENT, tokenize.COMMENT) and t.start[0] == t.end[0]]
    out = [f'{frag}) + ({frag}', frag + ' ' + STRAY[sel % len(STRAY)], STRAY[(sel // 7) % len(STRAY)] + ' ' + frag,
           (f'{frag})({frag}', f'{frag}][{frag}', f'{frag}' + '}{' + f'{frag}', f'{frag}), ({frag}', f'{frag}: pass\n case ({frag}')[(sel // 3) % 5], frag + ' ' + STRAY[(sel // 11) % len(STRAY)]]

    if sig:
        lines = frag.split('\n')
        t = sig[sel % len(sig)]
        ln = t.start[0] - 1
        l = lines[ln]
        dele = lines[:ln] + [l[:t.start[1]] + l[t.end[1]:]] + lines[ln + 1:]
        dup = lines[:ln] + [l[:t.end[1]] + ' ' + t.string + l[t.end[1]:]] + lines[ln + 1:]
        out += ['\n'.join(dele), '\n'.join(dup)]

        if len(sig) > 1:
            u = sig[(sel + 1) % len(sig)]

            if u.start[0] == t.start[0] and u is not t:
                a, b = sorted((t, u), key=lambda x: x.start[1])
                sw = l[:a.start[1]] + b.string + l[a.end[1]:b.start[1]] + a.string + l[b.end[1]:]
                out.append('\n'.join(lines[:ln] + [sw] + lines[ln + 1:]))

    return [m for m in out if m != frag]


PAREN_EMBEDDED = {'expr', 'expr_all', 'expr_arglike', 'expr_slice', 'Tuple_elt', '_arglike', '_arglikes', 'keyword', 'arguments', 'arg', 'comprehension',
                  '_comprehensions', '_comprehension_ifs', 'type_param', '_type_params', '_pattern_attrlikes', 'exec', 'stmts'}
DECOR_OK = {'expr', 'expr_all', 'expr_arglike', 'expr_slice', 'Tuple_elt', 'Tuple', '_arglike', '_arglikes', 'keyword', 'arguments', 'arg',
            'comprehension', '_comprehensions', '_comprehension_ifs', 'type_param', '_type_params', '_pattern_attrlikes', 'stmt', 'exec', 'stmts',
            'ImportFrom_name', '_ImportFrom_names', 'withitem', '_withitems'}


ALIAS_MODES = {'alias', '_aliases', 'Import_name', '_Import_names', 'ImportFrom_name', '_ImportFrom_names'}
TRAILS = ('  # a; b, c: d = e', '  #;', ' # x ; ')


def no_pos(dump):
    return re.sub(r',? ?\b(?:end_)?(?:lineno|col_offset)=-?\d+', '', dump)


def execute(case, ctx):
    sel = case.get('sel', 0)

    if case.get('fixed'):
        for mode, frag in FIXED_FRAGS:
            check_fragment(mode, frag, bool(frag), ctx, 'fixed')

            for m in mutants(frag, sel):
                check_fragment(mode, m, False, ctx, 'fixed_mutant')

        ctx.count('modes_declared', len(MODES_SET))

        return

    if 'frag' in case:
        # maintainers' snippet for a mode: validity unknown -> treated as possibly invalid (acceptance must be justified)
        check_fragment(case['mode'], case['frag'], bool(case.get('expect_valid')), ctx, 'extracted' if case.get('expect_valid') else 'snippet')
        ctx.mark_nontrivial((case['mode'], case['frag']), None)

        return

    src = case['src']

    if 'mb' in case:
        src = multibyte_variant(src, case['mb'])

        if src is None:
            raise Skip('multibyte_variant_invalid')

    try:
        tree = ast.parse(src)
        S = Src(src)
    except (SyntaxError, ValueError, tokenize.TokenError, IndentationError):
        raise Skip('program_not_parseable') from None

    # whole program
    check_fragment('exec', src, True, ctx, 'program')

    try:
        f = FST(src, 'exec')
    except Exception as exc:
        raise Violation('C05.rejected_valid', f'exec parse of a valid program raised {exc!r}', 'exec:program') from None

    frags = extract(S, tree)
    all_m = sorted(MODES_SET)

    for k, (mode, frag, nested) in enumerate(frags):
        if (sel + k) % 3 and len(frags) > 40:
            continue  # sample

        multi = '\n' in frag
        check_fragment(mode, frag, not (multi and mode in ('alias', '_aliases')), ctx, 'extracted')  # the generic alias modes are a union of Import / ImportFrom syntax: no single construct contains a multi-line instance
        mbyte = len(frag.encode()) != len(frag)

        if nested or multi or mbyte:
            ctx.mark_nontrivial((mode, frag), {'mode': mode, 'fragment': frag[:120], 'kind': 'valid extracted'} if k % 200 == 0 else None)

        v = (sel + k) % 8

        if v == 0 and mode in DECOR_OK:
            for dec in ('# lead\n' + frag, frag + '  # trail', frag + '\n# after', '\n' + frag + '\n', frag + TRAILS[0], '# a; b, c: d = e\n' + frag, frag + '\n# after; x, y: z'):
                check_fragment(mode, dec, mode in PAREN_EMBEDDED, ctx, 'decorated')
                ctx.mark_nontrivial((mode, dec), None)
        elif v == 0 and mode in ALIAS_MODES and '\n' not in frag:
            for tr in TRAILS:  # a comment after a one-line alias is a comment after the import statement in every embedding
                check_fragment(mode, frag + tr, True, ctx, 'decorated')
                ctx.mark_nontrivial((mode, frag + tr), None)

        if v == 0 and not frag.rstrip(' \t').endswith('\\') and frag.strip() and (mode in DECOR_OK or (mode in ALIAS_MODES and '\n' not in frag)):
            # metamorphic, guessing modes: a comment after the last token never changes what the source is parsed as
            for gm in ('all', 'strict'):
                try:
                    a0 = FST(frag, gm).a

                    if a0.__class__.__name__ == '_Assign_targets':
                        continue  # 'x =' (also the literal text of a self-documenting f-string field): no comment can follow the last '='

                    k0 = dump_pfst(gm, a0)
                except Exception:
                    continue

                for tr in TRAILS:
                    try:
                        k1 = dump_pfst(gm, FST(frag + tr, gm).a)
                    except Exception as exc:
                        raise Violation('C05.comment_changes_guess', f'FST({frag!r}, {gm!r}) is accepted but with the trailing comment {tr!r} it raises {exc!r}', f'{gm}:trail') from None

                    if no_pos(k1) != no_pos(k0):
                        raise Violation('C05.comment_changes_guess', f'FST({frag!r}, {gm!r}) -> {k0[:120]} but with the trailing comment {tr!r} -> {k1[:120]}', f'{gm}:trail')

                    ctx.count('guess_mode_trailing_comment_checked')
        elif v == 1:
            for m in mutants(frag, sel + k):
                check_fragment(mode, m, False, ctx, 'mutant')
                ctx.mark_nontrivial((mode, m), {'mode': mode, 'fragment': m[:120], 'kind': 'mutant'} if k % 200 == 1 else None)
        elif v == 2:
            for j in range(3):
                other = all_m[(sel + k * 7 + j * 13) % len(all_m)]

                if other != mode:
                    check_fragment(other, frag, False, ctx, 'wrong_mode')
                    ctx.mark_nontrivial((other, frag), {'mode': other, 'fragment': frag[:120], 'kind': f'fragment of mode {mode}'} if k % 200 == 2 else None)


def coverage_extra(tier):
    return {'modes_declared_by_pfst': sorted(MODES_SET), 'modes_uncovered': sorted(m for m in MODES_SET if m not in WRAPPERS and m not in ('match_case', '_match_cases', 'all', 'strict'))}
