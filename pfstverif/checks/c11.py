"""C11 - whitespace-only source edits in offset mode keep every node on its text."""

from __future__ import annotations

import ast
import re
import tokenize

from hypothesis import strategies as st

from .. import gen
from ..editmachine import FST
from ..oracle import S, T, first_diff
from ..runner import Skip, Violation
from .c06 import Src, multibyte_variant

ID = 'C11'
LEVEL = 'exploration'
TECHNIQUE = 'per-program enumeration of token gaps x trivia replacements; oracle: whole-file CPython parse of the spliced source'
RULE = ('For each program (real windows, templates, snippets, layout-mutated, multi-byte variants) every gap between two '
        'consecutive significant tokens (tokenize; also zero-width gaps) x replacements {delete, one/two spaces, tab, backslash '
        'continuation, newline+indent, comment+newline+indent, gap doubled, extra blank / comment line for multi-line gaps}. '
        'The splice is computed on strings; it is kept only if CPython parses it to the same structure (so the text is trivia). '
        'put_src(action=\'offset\') is called on the innermost node (by location, brute force over all nodes) that contains both '
        'neighbouring tokens. Oracle: root.src == spliced source and ast.dump(tree, include_attributes=True) == dump of a '
        'from-scratch parse. Non-trivial = multi-line replacement, or a gap that touches a node boundary shared by >= 2 nodes, '
        'or multi-byte characters earlier on the line; distinct by (source, gap index, replacement).')
ASSUMPTIONS = [
    'inside f-strings only the gaps between two tokens of a replacement field are edited, on one line, with spaces only (delete / one / two / doubled); '
    'the edit may change the literal text of a self-documenting field {expr = } and nothing else; gaps next to the literal parts or between two braces are skipped',
    'the node to call is chosen by pfst locations, which C06 validates against tokenize / CPython',
]


def params(tier):
    if tier == 'quick':
        return {'examples': 60, 'wall': 80, 'case_timeout': 60, 'gaps': 60}

    return {'examples': 1500, 'wall': 600, 'case_timeout': 240, 'gaps': 400}


def floors(tier):
    return {'distinct_nontrivial': 1000 if tier == 'quick' else 30000}


def strategy(tier):
    @st.composite
    def strat(draw):
        case = {'src': draw(gen.program(40)), 'sel': draw(st.integers(0, 1 << 30)), 'gaps': params(tier)['gaps']}

        if draw(st.integers(0, 3)) == 0:
            case['mb'] = draw(st.integers(0, 3))

        return case

    return strat()


FDEBUG_PROGRAMS = (
    "x = f'{a = !r}'", "x = f'pre {a + b = !s} post'", "x = f'{a = }'", "x = f'{a = :>5}'", "x = f'{a = !r:>5}'", "x = f'{ a . b [ c ] = !a} { d }'",
    'x = f"{f( a , k = v ) = }{ [ p , q ] !r}"', "x = f'{a!r:{w}.{p}}' f'{ b = : { c } }'", 'x = f\'\'\'{\n a + b = !r} {c\n =}\'\'\'', "x = f'{é + ö = !r} {日 = }'",
)


def enumerate_cases(tier, shard, nshards, seed):
    for j, src in enumerate(gen.FSTRING_PROGRAMS + FDEBUG_PROGRAMS):
        if j % nshards == shard:
            yield {'src': src, 'sel': seed * 131 + j, 'gaps': 10_000}

    for j, src in enumerate(gen.SYN_PROGRAMS):
        if j % nshards == shard:
            yield {'src': src, 'sel': seed * 131 + j, 'gaps': 10_000}

            if tier != 'quick' or j % 2:
                yield {'src': src, 'sel': seed * 131 + j, 'gaps': 10_000, 'mb': j}


FSTRING_TOKS = (tokenize.FSTRING_START, tokenize.FSTRING_MIDDLE, tokenize.FSTRING_END)


def S_fdebug(tree):
    """Structure with the literal parts of f-strings blanked: in a self-documenting field `{expr = }` the expression text, whitespace included, is
    also the value of the preceding literal part, so a whitespace edit there changes that Constant and nothing else."""

    saved = []

    try:
        for n in ast.walk(tree):
            if isinstance(n, ast.JoinedStr):
                for v in n.values:
                    if isinstance(v, ast.Constant):
                        saved.append((v, v.value))
                        v.value = ''

        return S(tree)

    finally:
        for v, val in saved:
            v.value = val


def splice(lines, ln, col, end_ln, end_col, text):
    new = lines[ln][:col] + text + lines[end_ln][end_col:]

    return '\n'.join(lines[:ln] + [new] + lines[end_ln + 1:])


def execute(case, ctx):
    src = case['src']

    if 'mb' in case:
        src = multibyte_variant(src, case['mb'])

        if src is None:
            raise Skip('multibyte_variant_invalid')

    try:
        old_tree = ast.parse(src)
        old_S = S(old_tree)
        sc = Src(src)
    except (SyntaxError, ValueError, tokenize.TokenError, IndentationError):
        raise Skip('program_not_parseable') from None

    code = sc.code

    if len(code) < 2:
        raise Skip('no_gaps')

    try:
        base = FST(src, 'exec')
    except Exception as exc:
        raise Skip(f'build_failed:{type(exc).__name__}') from None

    locs = []  # (loc, depth_order, path) for nodes with loc, in walk order (parents first)

    for f in base.walk(all=True):
        if f.loc is not None:
            locs.append((tuple(f.loc), base.child_path(f, as_str=True) if f is not base else ''))

    ends_at = {}

    for loc, _ in locs:
        ends_at[(loc[2], loc[3])] = ends_at.get((loc[2], loc[3]), 0) + 1
        ends_at[(loc[0], loc[1])] = ends_at.get((loc[0], loc[1]), 0) + 1

    ngaps = len(code) - 1
    budget = case.get('gaps', 60)
    sel = case.get('sel', 0)
    step = max(1, ngaps // budget)
    src_hash = hash(src)

    for gi in range((sel % step), ngaps, step):
        a, b = code[gi], code[gi + 1]

        in_f = False

        if sc.in_fstring(a[3]) or sc.in_fstring(b[2]) or a[0] in (tokenize.FSTRING_START, tokenize.FSTRING_MIDDLE) or b[0] in (tokenize.FSTRING_MIDDLE, tokenize.FSTRING_END):
            if a[0] in FSTRING_TOKS or b[0] in FSTRING_TOKS or a[3][0] != b[2][0] or (a[1] == '{' and b[1] == '{') or (a[1] == '}' and b[1] in ('}', '{')):  # '}{': between two fields, i.e. literal text
                ctx.count('gap_in_fstring_skipped')  # next to literal text of the f-string (not a gap between tokens of a node), or would make / break a brace escape

                continue

            in_f = True  # a gap between two tokens of a replacement field: spaces only (see ASSUMPTIONS)

        (ln, col), (end_ln, end_col) = a[3], b[2]
        gap = '\n'.join([sc.lines[ln][col:]] + sc.lines[ln + 1:end_ln] + [sc.lines[end_ln][:end_col]]) if end_ln > ln else sc.lines[ln][col:end_col]
        if re.sub(r'#[^\n]*', '', gap).replace('\\', '').strip():
            ctx.count('gap_not_trivia(tokenize end column of a multi-line token after non-ASCII text is unreliable)_skipped')

            continue

        line = sc.lines[ln]
        ind = ' ' * (len(line) - len(line.lstrip()) + 4)
        reps = ['', ' ', '  ', '\t', gap + gap, ' \\\n' + ind, '\n' + ind, '  # c\n' + ind]

        if in_f:
            reps = ['', ' ', '  ', gap + gap + ' ']
            ctx.count('gaps_in_fstring_fields')

        if '\n' in gap:
            i = gap.index('\n')
            reps += [gap[:i] + '\n' + gap[i:], gap[:i] + '\n' + ind[:-4] + '# c' + gap[i:], gap[:i] + '  # tc' + gap[i:] if '#' not in gap[:i] else gap]

        # innermost node containing both neighbouring tokens
        inner = None

        for loc, path in locs:
            if (loc[0], loc[1]) <= a[2] and b[3] <= (loc[2], loc[3]):
                inner = path

        if inner is None:
            ctx.count('gap_without_container')

            continue

        for ri, rep in enumerate(reps):
            if rep == gap:
                continue

            if (sel + gi + ri) % 2 and len(reps) * ngaps > 400:
                continue  # sample

            want = splice(sc.lines, ln, col, end_ln, end_col, rep)

            try:
                ref = ast.parse(want)
            except (SyntaxError, ValueError, RecursionError):
                ctx.count('discard:splice_not_parseable')

                continue

            if in_f:
                if S_fdebug(ref) != S_fdebug(old_tree):
                    ctx.count('discard:splice_changes_structure')

                    continue

            elif S(ref) != old_S:
                ctx.count('discard:splice_changes_structure')

                continue

            try:
                root = FST(src, 'exec')
                node = root.child_from_path(inner) if inner else root
            except Exception:
                ctx.count('discard:rebuild_failed')

                continue

            ctx.count('offset_edits')
            desc = f'put_src({rep!r}, {ln}, {col}, {end_ln}, {end_col}, action="offset") on {node!r} (gap {gap!r} between {a[1]!r} and {b[1]!r})'
            sig = f'{node.a.__class__.__name__}:{"multi" if "\n" in rep or "\n" in gap else "single"}'

            try:
                node.put_src(rep, ln, col, end_ln, end_col, 'offset')
            except Exception as exc:
                raise Violation('C11.raised', f'{desc} raised {exc!r}\n--- src ---\n{src[:1200]}', sig) from None

            if root.src != want:
                raise Violation('C11.src', f'{desc}: source is not the requested splice\n--- want ---\n{want[:800]}\n--- got ---\n{root.src[:800]}', sig)

            live, exp = T(root.a), T(ref)

            if live != exp:
                raise Violation('C11.tree', f'{desc}: tree != from-scratch parse {first_diff(live, exp)}\n--- src ---\n{src[:1200]}', sig)

            line0 = sc.lines[ln][:col]
            nontrivial = '\n' in rep or ends_at.get(a[3], 0) >= 2 or ends_at.get(b[2], 0) >= 2 or len(line0.encode()) != len(line0)

            if nontrivial:
                ctx.mark_nontrivial((src_hash, gi, rep), {'gap_between': [a[1], b[1]], 'gap': gap, 'replacement': rep, 'node': repr(node), 'line': sc.lines[ln][:100]}
                                    if (gi + ri) % 97 == 0 else None)
