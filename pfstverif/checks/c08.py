"""C08 - putting back what was taken restores the tree; accessors read back writes."""

from __future__ import annotations

import ast
import re
import tokenize
from collections import Counter

from hypothesis import strategies as st

from .. import editmachine as em
from .. import gen
from ..editmachine import FST
from ..oracle import NoRef, S, S0, parse_ref
from ..runner import Skip, Violation, fst_site
from . import c01, c04, c05, c07

ID = 'C08'
LEVEL = 'exploration'
TECHNIQUE = 'round-trip property-based testing (cut/put, replace-by-self in three code forms, own_src re-parse, docstring and line-comment accessors) with CPython parses as oracle'
RULE = ('(a) for Hypothesis-drawn nodes and slices of module sources: cut, then put back at the same place (transient norm=False as '
        'documented), also k <= 4 times at different targets of the same tree; (b) replace a node by its own copy(), its own pure '
        'AST (copy_ast) and its own source text (own_src), with norm=True; oracle for (a)(b): ast.dump(ast.parse(after)) == '
        'ast.dump(ast.parse(before)) (structure) and the C01 invariant; (c) own_src() of every node, parsed through the CPython '
        'embedding of the node kind (expressions inside "(\\n...\\n)"), has the structure of the node and every literal which option docstr does not allow to be re-indented (bytes, non-docstring positions) keeps its exact value, also through (a)(b) (contexts erased; docstring '
        're-indent normalised; f-string interior nodes are documented unparsable and skipped); (d) put_docstr(text) then get_docstr() '
        '== text and ast.get_docstring(parse, clean=False) dedents to text, for Hypothesis text (all planes, quotes, backslashes, '
        'control characters, triple quotes) whose first line does not start with whitespace; (e) put_line_comment(text) then '
        'get_line_comment() == text and the COMMENT token on that line is "# text" (domain text == text.strip(), no line break), '
        'full=True verbatim. Non-trivial = round trip over a multi-line / commented / parenthesised element, or docstring / comment '
        'text with a quote, backslash, non-ASCII or control character; distinct by full case.')
ASSUMPTIONS = [
    'docstring text domain: first line does not start with whitespace, no \\r and no lone surrogates (cannot be written to source); '
    'comment text domain: text == text.strip(), no line break, printable',
    'own_src is documented not to add parentheses: expressions are re-parsed inside parentheses',
] + c07.ASSUMPTIONS[:1]


def params(tier):
    if tier == 'quick':
        return {'examples': 3000, 'wall': 120, 'case_timeout': 40}

    return {'examples': 25000, 'wall': 600, 'case_timeout': 60}


def floors(tier):
    return {'distinct_nontrivial': 1500 if tier == 'quick' else 30000}


DOC_TEXT = st.text(alphabet=st.characters(exclude_categories=('Cs',), exclude_characters='\r\x00\x0c'), max_size=60).filter(lambda s: not s[:1].isspace())
COMMENT_TEXT = st.text(alphabet=st.characters(exclude_categories=('Cs', 'Cc', 'Zl', 'Zp'), exclude_characters='\x85'), max_size=40).map(str.strip).filter(
    lambda s: s == s.strip() and '\n' not in s)


def strategy(tier):
    @st.composite
    def strat(draw):
        kind = draw(st.sampled_from(['cutput', 'cutput', 'self', 'self', 'own_src', 'docstr', 'comment']))
        case = {'kind': kind, 'src': draw(gen.program(40)), 'sels': draw(st.lists(st.tuples(st.integers(0, 1 << 30), st.integers(-6, 7), st.integers(-6, 7), st.integers(0, 5)),
                                                                                   min_size=1, max_size=4))}

        if kind == 'docstr':
            case['text'] = draw(st.one_of(DOC_TEXT, st.sampled_from(['doc', 'two\nlines', 'q " q', "q ' q", '"""', "'''", 'back\\slash', 'end\\', 'ünï', 'a\n    b\n  c', '',
                                                                      '"', 'x"', '\\N{DASH}', 'tab\there', 'a\n\n\nb', '{x}', '\x07bell'])))
        elif kind == 'comment':
            case['text'] = draw(st.one_of(COMMENT_TEXT, st.sampled_from(['c', 'two words', '# hash', 'ünï', 'q"\'', 'back\\', 'x  y', ''])))
            case['full'] = draw(st.booleans())

        return case

    return strat()


def enumerate_cases(tier, shard, nshards, seed):
    """Histories on the trivia-dense programs with warm caches: a line comment put (longer / shorter / none) on each statement, then every enclosing
    statement (and the statement itself) is cut and put back, or replaced by its own copy / own source."""

    thin = 2 if tier == 'quick' else 1

    for case in em.ancestor_two_step_grid(gen.TRIVIA_PROGRAMS + gen.SYN_PROGRAMS[:12], tier, shard, nshards, seed, thin=thin):
        s1, s2 = case['steps']

        if s1.get('lc_field') or s2['op'] == 'remove':
            continue

        for how in (('cutput',) if s2['op'] == 'cut' else ('copy', 'own_src')):
            yield {'kind': 'history', 'src': case['src'], 'tsel': s1['tsel'], 'text': s1['text'], 'asel': s2['tsel'], 'how': how, 'enumerated': True}


    # multi-line strings / bytes in and out of docstring positions: own_src under every docstr value for every node; replace by own copy / source and cut + put back
    for src in gen.DOCSTR_PROGRAMS + c07.NONSTR_MULTILINE_PROGRAMS:
        n = len(em.node_targets(ast.parse(src)))

        for ti in range(n):
            for mode in (0, 1, 2):
                if (ti * 3 + mode) % nshards == shard:
                    yield {'kind': 'own_src', 'src': src, 'sels': [[ti, 0, 0, mode]], 'enumerated': True}
                    yield {'kind': 'self', 'src': src, 'sels': [[ti, 0, 0, mode]], 'enumerated': True}

            if ti % nshards == shard:
                yield {'kind': 'cutput', 'src': src, 'sels': [[ti, 0, 0, 0]], 'enumerated': True}


DANGLING_CONT = re.compile(r'\\\n[ \t]*(\n|$)')


def parse_or_skip(src):
    try:
        return ast.parse(src)
    except (SyntaxError, ValueError):
        raise Skip('source_not_parseable') from None


def invariant(root, desc, site):
    try:
        c01.check_invariant(root, None, 'C08.c01')
    except Violation as v:
        raise Violation('C08.c01', f'{desc}: {v.msg}', site) from None


def execute(case, ctx):
    src = case['src']

    if (why := c01.excluded(src)) and not case.get('no_exclude'):
        raise Skip(f'excluded_known_finding:{why}')

    if c04.LONE_CONT.search(src):
        raise Skip('domain:lone_continuation_line')

    kind = case['kind']
    before_S = S(parse_or_skip(src))

    try:
        root = FST(src, 'exec')
    except Exception as exc:
        raise Skip(f'build_failed:{type(exc).__name__}') from None

    rich = False

    if kind == 'history':
        em.warm_caches(root)
        nodes = em.node_targets(root.a)
        node, parent, field, idx = nodes[case['tsel'] % len(nodes)]
        anc, aparent, afield, aidx = nodes[case['asel'] % len(nodes)]
        text = case['text']
        desc = f'put_line_comment({text!r}) on {parent.__class__.__name__}.{field}[{idx}] {node.__class__.__name__}, then {case["how"]} of {aparent.__class__.__name__}.{afield}[{aidx}] {anc.__class__.__name__}'
        site = f'history:{case["how"]}:{anc.__class__.__name__}'

        try:
            node.f.put_line_comment(text or None)
        except Exception as exc:
            ctx.count(f'comment_refused:{type(exc).__name__}')

            return

        mid = root.src
        mid_S = c07.norm_dump(parse_or_skip(mid))
        # comments on the lines of the round-tripped statement (those after its first and before its last line are part of its source whatever the
        # trivia options say; the line comment on its last line travels with it under the default trivia, but is not part of own_src())
        last = anc.end_lineno - (case['how'] == 'own_src')
        mid_comments = Counter(t[1] for t in c04.K_pos(mid) if t[0] == tokenize.COMMENT and anc.lineno <= t[2][0] + 1 <= last)
        em.warm_caches(root)
        f = anc.f

        try:
            if case['how'] == 'cutput':
                piece = f.cut()
                pf = aparent.f

                if aidx is None:
                    pf.put(piece, field=afield)
                else:
                    pf.put_slice(piece, aidx, aidx, afield, one=True)
            elif case['how'] == 'copy':
                f.replace(f.copy(), norm=True)
            else:
                f.replace(f.own_src(), norm=True)
        except Exception as exc:
            ctx.count(f'refused:history:{type(exc).__name__}@{fst_site(exc)}')

            return

        after = root.src

        try:
            after_S = c07.norm_dump(ast.parse(after))
        except SyntaxError as exc:
            raise Violation('C08.unparsable', f'{desc}: result does not parse: {exc!r}\n--- before ---\n{mid[:700]}\n--- after ---\n{after[:700]}', site) from None

        if after_S != mid_S and re.sub(r'(?: |\\t)+', '', after_S) == re.sub(r'(?: |\\t)+', '', mid_S) and ('"""' in mid or "'''" in mid):
            after_S = mid_S

        if after_S != mid_S:
            raise Violation('C08.structure', f'{desc}: structure changed by the round trip\n--- before ---\n{mid[:700]}\n--- after ---\n{after[:700]}', site)

        after_comments = Counter(t[1] for t in c04.K_pos(after) if t[0] == tokenize.COMMENT)

        if mid_comments - after_comments:
            raise Violation('C08.history_comments', f'{desc}: comment(s) of the statement lost in the round trip: {dict(mid_comments - after_comments)}\n--- before ---\n{mid[:700]}\n--- after ---\n{after[:700]}', site)

        invariant(root, desc, site)
        ctx.count(f'history_roundtrips:{case["how"]}')

        if anc is not node and text:
            ctx.mark_nontrivial((src, case['tsel'], case['asel'], text, case['how']), {'kind': 'history', 'src': src[:300], 'desc': desc} if case['tsel'] % 7 == 0 else None)

        return

    if kind in ('cutput', 'self'):
        if case['sels'][0][1] % 2:
            em.warm_caches(root)

        for tsel, start, stop, mode in case['sels']:
            cur = root.src

            if DANGLING_CONT.search(cur):
                ctx.count('state_with_dangling_continuation(C01-dangling-continuation family, sequence stops)')  # a backslash continuation onto an empty line joins whatever is put after it

                return

            cur_S = c07.norm_dump(parse_or_skip(cur))
            nodes = em.node_targets(root.a)
            conts = em.container_targets(root.a)

            if kind == 'cutput' and mode >= 3 and conts:
                parent, field, n = em.pick(conts, tsel)
                s_ = 'end' if start == 7 else start
                e_ = 'end' if stop == 7 else stop
                desc = f'cut+put slice {parent.__class__.__name__}.{field}[{s_}:{e_}]'
                site = f'slice:{parent.__class__.__name__}.{field}'
                pf = parent.f

                try:
                    nall = len(c07.orig_elements(parent, field))
                except Exception:
                    continue

                lo = nall if start == 7 else max(0, min(nall, start + nall if start < 0 else start))
                hi = nall if stop == 7 else max(0, min(nall, stop + nall if stop < 0 else stop))

                if lo > hi:
                    continue

                had_docstr = getattr(pf, 'has_docstr', None)

                try:
                    piece = pf.get_slice(s_, e_, field, cut=True)
                except Exception as exc:
                    ctx.count(f'cut_refused:{type(exc).__name__}')

                    if root.src != cur:
                        raise Violation('C08.cut_raise_changed', f'{desc}: cut raised {exc!r} but changed the source', site) from None

                    continue

                try:
                    # the cut may have replaced the parent node (normalisation), relocate by container index
                    conts2 = em.container_targets(root.a)
                    p2 = pf if pf.a is not None and pf.is_alive else None

                    if p2 is None:
                        ctx.count('parent_replaced_by_cut')

                        return

                    if field == '_body' and getattr(p2, 'has_docstr', None) != had_docstr:
                        ctx.count('cut_made_a_string_statement_the_docstring(_body indices shift, documented virtual field)')

                        return

                    p2.put_slice(piece, lo, lo, field)
                except Exception as exc:
                    ctx.count(f'putback_refused:{type(exc).__name__}@{fst_site(exc)}')

                    return

            elif nodes:
                node, parent, field, idx = em.pick(nodes, tsel)
                f = node.f
                desc = f'{kind} {parent.__class__.__name__}.{field}[{idx}] {node.__class__.__name__}'
                site = f'node:{parent.__class__.__name__}.{field}'

                if isinstance(parent, (ast.JoinedStr, ast.FormattedValue)):
                    continue

                try:
                    if kind == 'cutput':
                        piece = f.cut()
                        pf = parent.f

                        if idx is None:
                            pf.put(piece, field=field)
                        else:
                            pf.put_slice(piece, idx, idx, field, one=True)
                    elif mode % 3 == 0:
                        f.replace(f.copy(), norm=True)
                        desc += ' by copy()'
                    elif mode % 3 == 1:
                        f.replace(f.copy_ast(), norm=True)
                        desc += ' by copy_ast()'
                    else:
                        code = f.own_src()
                        desc += f' by own_src() {code[:60]!r}'
                        f.replace(code, norm=True)
                except Exception as exc:
                    ctx.count(f'refused:{kind}:{type(exc).__name__}@{fst_site(exc)}')

                    if root.src != cur and kind == 'self':
                        raise Violation('C08.raise_changed', f'{desc} raised {exc!r} but changed the source', site) from None

                    if kind == 'cutput' and root.src != cur:
                        return  # cut succeeded, put back refused (counted): tree is in the documented intermediate state

                    continue
            else:
                continue

            ctx.count(f'roundtrips:{kind}')
            after = root.src

            if after.rstrip(' \t\n').endswith('\\'):
                ctx.count('result_ends_with_continuation(C01-dangling-continuation-eof family, not re-reported)')

                return

            try:
                after_S = c07.norm_dump(ast.parse(after))
            except SyntaxError as exc:
                raise Violation('C08.unparsable', f'{desc}: result does not parse: {exc!r}\n--- before ---\n{cur[:700]}\n--- after ---\n{after[:700]}', site) from None

            if after_S != cur_S and re.sub(r'(?: |\\t)+', '', after_S) == re.sub(r'(?: |\\t)+', '', cur_S) and ('"""' in cur or "'''" in cur):
                ctx.count('docstring_reindent_whitespace_tolerated')
                after_S = cur_S

            if after_S != cur_S:
                raise Violation('C08.structure', f'{desc}: structure changed by the round trip\n--- before ---\n{cur[:700]}\n--- after ---\n{after[:700]}', site)

            da, db = c07.docstr_dump(ast.parse(after), True), c07.docstr_dump(ast.parse(cur), True)

            if da != db and '\\\n' in cur and re.sub(r'(?: |\\t)+', '', da) == re.sub(r'(?: |\\t)+', '', db):
                ctx.count('docstring_reindent_whitespace_tolerated')
                da = db

            if da != db:
                raise Violation('C08.value', f'{desc}: a literal which is not a re-indentable string statement changed its value in the round trip\n--- before ---\n{cur[:700]}\n--- after ---\n{after[:700]}', site)

            invariant(root, desc, site)
            rich = rich or '#' in cur or '\n' in after[:0] or (kind == 'cutput' and '\n' in cur)

        if rich:
            ctx.mark_nontrivial(case, {'kind': kind, 'src': src[:300], 'targets': case['sels']} if case['sels'][0][0] % 41 == 0 else None)

        return

    if kind == 'own_src':
        nodes = em.node_targets(root.a)
        n_checked = 0

        for k, (tsel, _, _, mode) in enumerate(case['sels'] * 6):
            if not nodes:
                break

            node, parent, field, idx = nodes[(tsel + k * 7919) % len(nodes)]
            f = node.f

            if isinstance(parent, (ast.JoinedStr, ast.FormattedValue)) or isinstance(node, (ast.FormattedValue,)):
                ctx.count('own_src_fstring_interior_skipped(documented unparsable)')

                continue

            if isinstance(node, (ast.expr_context, ast.boolop, ast.operator, ast.unaryop, ast.cmpop)):
                continue

            docstr = (True, False, 'strict')[mode % 3]
            text = f.own_src(docstr=docstr)
            name = node.__class__.__name__
            desc = f'own_src(docstr={docstr!r}) of {parent.__class__.__name__}.{field}[{idx}] {name}: {text[:120]!r}'
            site = f'own_src:{name}'

            try:
                if isinstance(node, ast.expr) and not isinstance(node, (ast.Slice, ast.Starred)):
                    try:
                        ref = ast.parse(f'(\n{text}\n)', mode='eval').body
                    except SyntaxError:
                        if not (isinstance(node, ast.Tuple) and isinstance(parent, ast.Subscript)):
                            raise

                        ref = ast.parse(f'_[\n{text}\n]').body[0].value.slice  # subscript tuple with arglike / slice elements

                    if isinstance(node, ast.Tuple) and not isinstance(ref, ast.Tuple):
                        raise SyntaxError('not a tuple')
                elif isinstance(node, ast.match_case):
                    refs = c05.ref_results('match_case', text)

                    if refs is None:
                        continue

                    if not refs:
                        raise SyntaxError('no embedding parses it')

                    ref = refs[0]
                else:
                    ref = parse_ref(text, node)
            except NoRef:
                ctx.count(f'own_src_kind_without_embedding:{name}')

                continue
            except (SyntaxError, ValueError) as exc:
                raise Violation('C08.own_src_parse', f'{desc} does not parse back: {exc!r}\n--- tree source ---\n{src[:500]}', site) from None

            a, b = c07.norm_dump(ref), c07.norm_dump(node)

            if a != b and re.sub(r'(?: |\\t)+', '', a) == re.sub(r'(?: |\\t)+', '', b) and ('"""' in text or "'''" in text or '\\\n' in text):
                ctx.count('docstring_reindent_whitespace_tolerated')  # as in C07: a backslash continuation inside a string statement, re-indentation reaches into the value
                a = b

            if a != b:
                from ..oracle import first_diff

                raise Violation('C08.own_src_structure', f'{desc} parses to a different structure {first_diff(a, b)}', site)

            # strings which option docstr does not allow to be re-indented (bytes, strings in non-docstring positions) keep their exact value
            da, db = c07.docstr_dump(ref, docstr), c07.docstr_dump(node, docstr)

            if isinstance(node, ast.Constant):
                da = db  # the string itself: whether it is a (doc)string statement depends on where it is looked at from

            if da != db and '\\\n' in text and re.sub(r'(?: |\\t)+', '', da) == re.sub(r'(?: |\\t)+', '', db):
                ctx.count('docstring_reindent_whitespace_tolerated')
                da = db

            if da != db:
                from ..oracle import first_diff

                raise Violation('C08.own_src_value', f'{desc}: a literal which docstr={docstr!r} does not allow to be re-indented parses back to a different value {first_diff(da, db)}', site)

            n_checked += 1
            ctx.count('own_src_checked')

            if '\n' in text or '#' in text:
                ctx.mark_nontrivial((src, tsel, k, 'own_src'), {'kind': 'own_src', 'node': name, 'text': text[:160]} if tsel % 53 == 0 else None)

        return

    if kind == 'docstr':
        text = case['text']
        defs = [root] + [n.f for n, _, _, _ in em.node_targets(root.a) if isinstance(n, (ast.FunctionDef, ast.AsyncFunctionDef, ast.ClassDef))]
        tgt = em.pick(defs, case['sels'][0][0])
        desc = f'put_docstr({text!r}) on {tgt!r} (had docstring: {tgt.has_docstr})'
        site = f'docstr:{tgt.a.__class__.__name__}'

        try:
            tgt.put_docstr(text)
        except Exception as exc:
            raise Violation('C08.docstr_raise', f'{desc} raised {exc!r}', site) from None

        got = tgt.get_docstr()

        if got != text:
            raise Violation('C08.docstr_readback', f'{desc}: get_docstr() == {got!r}\n--- src ---\n{root.src[:600]}', site)

        invariant(root, desc, site)
        # CPython's view: the docstring constant, dedented by the body indentation, is the text
        ref = ast.parse(root.src)
        path = em.path_of(root.a, tgt.a) if tgt is not root else []
        node = ref

        for fld, i in path or []:
            node = getattr(node, fld)[i] if i is not None else getattr(node, fld)

        raw = ast.get_docstring(node, clean=False)

        if raw is None:
            raise Violation('C08.docstr_cpython', f'{desc}: CPython sees no docstring\n--- src ---\n{root.src[:600]}', site)

        ind = root.src.split('\n')[node.body[0].lineno - 1][:node.body[0].col_offset]  # the actual indentation text (may be tabs)
        ded = '\n'.join(l[len(ind):] if l.startswith(ind) else l.lstrip(' ') if not l.strip() else l for l in raw.split('\n'))

        if ded != text and raw != text:
            raise Violation('C08.docstr_cpython', f'{desc}: CPython reads {raw!r} (dedented {ded!r})\n--- src ---\n{root.src[:600]}', site)

        ctx.count('docstr_roundtrips')

        if any(c in text for c in '"\'\\') or not text.isascii() or any(ord(c) < 32 and c != '\n' for c in text):
            ctx.mark_nontrivial((src[:80], case['sels'][0][0], text), {'kind': 'docstr', 'text': text, 'target': repr(tgt)} if len(text) % 5 == 0 else None)

        return

    if kind == 'comment':
        text = case['text']
        stmts = [n.f for n, _, _, _ in em.node_targets(root.a) if isinstance(n, ast.stmt)]

        if not stmts:
            raise Skip('no_statements')

        tgt = em.pick(stmts, case['sels'][0][0])
        field = None

        if case.get('full'):
            put = '  # ' + text if text else '  #'
            desc = f'put_line_comment({put!r}, full=True) on {tgt!r}'
        else:
            put = text
            desc = f'put_line_comment({put!r}) on {tgt!r}'

        site = f'comment:{tgt.a.__class__.__name__}'
        old = root.src
        old_S = before_S

        try:
            tgt.put_line_comment(put, field, full=bool(case.get('full')))
        except Exception as exc:
            if root.src != old:
                raise Violation('C08.comment_raise_changed', f'{desc} raised {exc!r} but changed the source', site) from None

            ctx.count(f'comment_refused:{type(exc).__name__}')

            return

        got = tgt.get_line_comment(field, full=bool(case.get('full')))
        want = put if case.get('full') else text

        if not case.get('full') and text == '':
            want_ok = got in ('', None)
        else:
            want_ok = got == want

        if not want_ok:
            raise Violation('C08.comment_readback', f'{desc}: get_line_comment() == {got!r}, expected {want!r}\n--- src ---\n{root.src[:500]}', site)

        try:
            after_S = S(ast.parse(root.src))
        except SyntaxError as exc:
            raise Violation('C08.comment_unparsable', f'{desc}: result does not parse: {exc!r}\n--- src ---\n{root.src[:500]}', site) from None

        if after_S != old_S:
            raise Violation('C08.comment_structure', f'{desc}: structure changed\n--- before ---\n{old[:500]}\n--- after ---\n{root.src[:500]}', site)

        invariant(root, desc, site)
        ctx.count('comment_roundtrips')

        if text and (any(c in text for c in '"\'\\#') or not text.isascii()):
            ctx.mark_nontrivial((src[:80], case['sels'][0][0], text, case.get('full')), {'kind': 'comment', 'text': text, 'full': case.get('full')} if len(text) % 5 == 0 else None)
