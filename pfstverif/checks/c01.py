"""C01 - after any successful edit the source text still parses to exactly the live tree."""

from __future__ import annotations

import ast
import re

from .. import editmachine as em
from ..editmachine import FST
from ..oracle import T, first_diff, parse_ref
from ..runner import Skip, Violation, fst_site

ID = 'C01'
LEVEL = 'exploration'
TECHNIQUE = 'stateful property-based testing (Hypothesis edit sequences) with CPython ast.parse as oracle'
RULE = ('Hypothesis-generated edit sequences (1-8 steps quick, 1-25 thorough), next to deterministic one-step / two-step grids on saturated, trivia-dense and multi-byte container programs, on module sources drawn from real stdlib/repo '
        'windows, the maintainers\' snippet inputs and synthetic grammar-corner templates, optionally layout-mutated; each '
        'step = op x target(node or list container, chosen modulo the live tree) x donor(category-compatible, src/AST/FST '
        'form) x options with norm=True, raw=False. After every step that returns normally: '
        'ast.dump(live, include_attributes=True) == ast.dump(ast.parse(root.src), include_attributes=True). '
        'A case is non-trivial when it has >= 2 successful structure-changing steps of which >= 1 targets a node that spans '
        'several lines or shares its lines with a comment, another statement or a continuation; distinct = distinct '
        '(source, step list) hashes.')
ASSUMPTIONS = [
    'CPython 3.12 ast.parse is the reference parser',
    'roots are Modules; other root kinds are covered by C05/C07/C08 through embeddings',
    'norm=True and raw=False on every edit; pars=False is never drawn (property precondition)',
    'donors parse standalone under CPython in their category (G-D); steps that raise are not C01 events (see C12)',
]

BASE_OPTS = {'norm': True, 'raw': False}


def params(tier):
    if tier == 'quick':
        return {'examples': 2200, 'wall': 200, 'case_timeout': 20, 'max_steps': 8}

    return {'examples': 5000, 'wall': 600, 'case_timeout': 30, 'max_steps': 25}


def floors(tier):
    return {'distinct_nontrivial': 20 if tier == 'quick' else 300, 'steps_ok': 200 if tier == 'quick' else 5000}


def strategy(tier):
    return em.case_strategy(max_steps=params(tier)['max_steps'], max_lines=50)


# multi-byte text on the lines of small comma / `=` separated containers (statement-level ones included): positions fixed up after a slice edit are byte offsets
MB_SLICE_PROGRAMS = (
    'del d["ключ"], b, c\nglobal ñ, ö, ü\nimport módulo, otro as ñ, z\nfrom . import añ, bö as cü, d',
    'ä = ö = ü = "ß", 2\nwith "é" as á, "í" as ó, u: pass\nx = ["日本", b, c]; y = {"語": 1, "k": 2, **z}\nf("ü", k="ö", *a, **b)',
    '@"ñ".d\n@e("ö")\nclass Ç("É", m="Ñ"): pass\ndef ƒ(α, β="γ", *δ, ε, **ζ): return α or "η" and θ or ι\nr = "κ" < λ <= "μ" != ν',
    'match "ñ":\n    case ["ö", b, *c]: pass\n    case {"ü": 1, "k": v, **r}: pass\n    case Ç("é", k="í"): pass\n    case "á" | "ó" | 3: pass\ntry: pass\nexcept* ("É", Ñ): pass\nelse: "ß"; b; c',
)

def enumerate_cases(tier, shard, nshards, seed):
    """Single-edit grid over the saturated and template programs (every node x a few donors x forms x pars, plus remove); the drawn histories
    of strategy() come on top."""

    from .. import gen

    yield from em.single_edit_grid(gen.saturated_programs() + gen.SYN_PROGRAMS, tier, shard, nshards, seed, thin=5 if tier == 'quick' else 1)
    yield from em.single_edit_grid(gen.TRIVIA_PROGRAMS + gen.FSTRING_PROGRAMS, tier, shard, nshards, seed, n_expr=4, line_comments=True, cut=True, thin=2 if tier == 'quick' else 1)
    yield from em.slice_edit_grid(gen.TRIVIA_PROGRAMS, tier, shard, nshards, seed, optsets=({}, {'trivia': 'all'}, {'pep8space': False}), thin=2 if tier == 'quick' else 1)
    yield from em.ancestor_two_step_grid(gen.TRIVIA_PROGRAMS + gen.SYN_PROGRAMS, tier, shard, nshards, seed, thin=2 if tier == 'quick' else 1)
    yield from em.slice_edit_grid(MB_SLICE_PROGRAMS, tier, shard, nshards, seed, optsets=({},), thin=1)


def _context_rich(src_lines, extent) -> bool:
    if not extent:
        return False

    ln, col, end_ln, end_col = extent

    if end_ln > ln:
        return True

    line = src_lines[ln] if ln < len(src_lines) else ''

    return '#' in line or ';' in line or line.rstrip().endswith('\\') or (ln > 0 and src_lines[ln - 1].rstrip().endswith('\\'))


def check_invariant(root, ap, clause='C01.invariant'):
    src = root.src
    site = f'{ap.op}:{ap.parent_cls}.{ap.field}' if ap is not None else 'initial'

    try:
        ref = parse_ref(src, root.a)
    except (SyntaxError, ValueError) as exc:
        raise Violation(clause, f'after {ap.desc if ap else "build"}: source no longer parses: {exc!r}\n--- src ---\n{src[:1500]}',
                        f'unparsable:{site}') from None

    live = T(root.a)
    want = T(ref)

    if live != want:
        raise Violation(clause, f'after {ap.desc if ap else "build"}: live tree != ast.parse(src) {first_diff(live, want)}\n--- src ---\n{src[:1500]}',
                        f'mismatch:{site}')


def excluded(src: str):
    """Exclusion by construction of inputs covered by known findings (see known_findings.json); counted."""

    if re.search(r'(?m)^[ \t]*;', src):
        return 'semicolon_own_line'

    if re.search(r'\\\n[ \t]*\n', src):
        return 'continuation_onto_blank_line'  # 'i \\' + empty line: a statement put after it is joined to the dangling line (known finding)

    return None


def execute(case, ctx):
    if (why := excluded(case['src'])) and not case.get('no_exclude'):
        raise Skip(f'excluded_known_finding:{why}')

    try:
        root = FST(case['src'], 'exec')
    except Exception as exc:
        raise Skip(f'build_failed:{type(exc).__name__}') from None

    check_invariant(root, None)

    ok_changes = 0
    rich = False

    for step in case['steps']:
        before = root.src
        lines_before = before.split('\n')

        try:
            ap = em.apply_step(root, step, BASE_OPTS)
        except em.StepSkipped as s:
            ctx.count(f'step_skipped:{s.reason}')

            continue

        if ap.raised:
            ctx.count('steps_raised')
            ctx.count(f'raise_site:{fst_site(ap.exc)}')

            if isinstance(ap.exc, (AssertionError, RecursionError)):
                ctx.count(f'internal_error:{type(ap.exc).__name__}')

            # a raise must leave a tree we can keep editing; if it does not, C12 reports it - here we stop the sequence
            if root.src != before:
                ctx.count('raise_changed_source(see C12)')

                return

            continue

        ctx.count('steps_ok')
        ctx.count(f'op:{ap.op}')
        ctx.count(f'slot:{ap.parent_cls}.{ap.field}')
        ctx.count(f'form:{ap.form}')
        check_invariant(root, ap)

        if root.src != before:
            ok_changes += 1
            rich = rich or _context_rich(lines_before, ap.extent) or '\n' in (ap.code_src or '')

    if ok_changes >= 2 and rich:
        ctx.mark_nontrivial(case, {'src': case['src'][:400], 'steps': [f"{s['op']} tsel={s['tsel']} form={s['form']} opts={s.get('opts')}" for s in case['steps']][:8]})
