"""C04 - formatting and comments outside the edited element are preserved byte for byte."""

from __future__ import annotations

import ast
import keyword
import re
import tokenize
from collections import Counter

from .. import editmachine as em
from ..editmachine import FST
from ..oracle import K_pos, b2c
from ..runner import Skip, Violation
from . import c01

ID = 'C04'
LEVEL = 'exploration'
TECHNIQUE = 'property-based testing; tokenize-based prefix/suffix preservation oracle computed from the OLD source only'
RULE = ('Single-node structured edits (replace / remove / cut / put / item and attribute assignment and deletion) and '
        'statement insertions on comment-rich module sources (real windows, maintainers\' snippets, synthetic templates, layout '
        'mutated with comments / continuations / semicolons, plus a grid of programs whose comments END IN A BACKSLASH next to real continuations), with all trivia / pep8space / elif_ / docstr option values, in '
        'sequences. For each successful edit the allowed region A_max is computed from the OLD source with tokenize and CPython '
        'extents: the element\'s tokens, its own grouping parentheses, one adjoining separator token per side, the comment '
        'tokens the reference trivia selector says the trivia option selects, and the `else:`/`finally:` header when the '
        'element is the sole statement of that block. Oracle: the old tokens (COMMENTs included) before A_max are a prefix of '
        'the new token stream and those after it are a suffix (text-exact); every old line wholly before / after the lines '
        'of A_max is byte-identical and in order apart from blank lines adjacent to a statement-level element; the multiset of '
        'comments outside A_max is conserved. Non-trivial = there is >= 1 comment outside the element in the source and the '
        'element shares a line with other tokens or spans several lines or has comment lines directly above/below; '
        'distinct by (source, step prefix).')
ASSUMPTIONS = [
    'A_max is deliberately the union of everything the statement allows; only what lies outside it is asserted',
    'when the direct parent gains delimiters (undelimited tuple parenthesised) one extra opening/closing delimiter is tolerated',
    'sources containing a physical line that consists only of a backslash continuation are outside the domain of the line '
    'clauses (the maintainers\' adversarial snippets): which logical line such a line belongs to is ambiguous',
    'sources with comma-first layout (a physical line starting with a comma) are outside the domain: ownership of comments between '
    'an element and a separator on the next line is ambiguous',
    'slice edits of expression lists are covered through C03/C07 structure oracles, not here; elements without CPython '
    'positions (operators, comprehensions, arguments, withitems, match_cases) are skipped and counted',
] + c01.ASSUMPTIONS[:3]

NODE_OPS = ('replace', 'remove', 'cut', 'put', 'setitem', 'delitem', 'setattr', 'delattr', 'put_prim')


def params(tier):
    if tier == 'quick':
        return {'examples': 1500, 'wall': 120, 'case_timeout': 20, 'max_steps': 4}

    return {'examples': 40000, 'wall': 600, 'case_timeout': 30, 'max_steps': 10}


def floors(tier):
    return {'distinct_nontrivial': 100 if tier == 'quick' else 2000, 'edits_checked': 1000 if tier == 'quick' else 20000}


def strategy(tier):
    from hypothesis import strategies as st

    @st.composite
    def strat(draw):
        case = draw(em.case_strategy(max_steps=params(tier)['max_steps'], max_lines=40))

        for step in case['steps']:
            if step['op'] not in NODE_OPS:
                if step['op'] in em.SLICE_OPS:
                    step['op'] = 'insert'  # statement / element insertion
                    step['stop'] = step['start']
                else:
                    step['op'] = draw(st.sampled_from(NODE_OPS))

            step['anycat'] = False

        return case

    return strat()


# comments whose text ENDS IN A BACKSLASH (not a line continuation: a comment runs to the end of the line) next to real continuations, before / after /
# inside the statements and elements that get removed, cut, replaced and inserted
BACKSLASH_COMMENT_PROGRAMS = (
    'a = 1  # dir C:\\tools\\\nb = 2\nc = 3  # x \\\n# own line \\\nd = 4\ne = 5',
    'if a:  # hdr \\\n    e = 5  # in \\\n    f = 6\n    g = 7  # last \\\nelse:  # e \\\n    h = 8\ni = 9',
    'g = [  # open \\\n    h,  # el \\\n    i,\n    j,  # end \\\n]\nk = f(a,  # arg \\\n      b)',
    'j = 7; k = 8  # semi \\\nl = 9\nm = 1 + \\\n    2  # after real continuation \\\nn = 3\no = \\\n  4\np = 5',
    'def f():  # d \\\n    """doc"""  # ds \\\n    x = 1  # tx \\\n    return x  # r \\\n\n# above g \\\ndef g(): pass  # tg \\\n',
)

def enumerate_cases(tier, shard, nshards, seed):
    """Grids on the trivia-dense and template programs: every node x {remove, cut under each option set; replace by a few donors}, and every container x
    insertion at every position x two donors x option sets (docstr, trivia, pep8space, elif_, pars)."""

    from .. import gen

    progs = gen.TRIVIA_PROGRAMS + gen.SYN_PROGRAMS
    thin = 2 if tier == 'quick' else 1

    yield from em.single_edit_grid(progs, tier, shard, nshards, seed, n_expr=3, thin=thin, remove_optsets=em.GRID_OPTSETS, cut=True)
    yield from em.slice_edit_grid(progs, tier, shard, nshards, seed, thin=thin, only_ops=('insert',))

    # insertions into expression-level containers (displays, calls, names, patterns ...) of the commented container templates
    from . import c03

    yield from em.slice_edit_grid(c03.GRID_TEMPLATES, tier, shard, nshards, seed, thin=thin, only_ops=('insert',), optsets=({}, {'trivia': False}))

    yield from em.single_edit_grid(BACKSLASH_COMMENT_PROGRAMS, tier, shard, nshards, seed, n_expr=2, thin=1, remove_optsets=em.GRID_OPTSETS, cut=True)
    yield from em.slice_edit_grid(BACKSLASH_COMMENT_PROGRAMS, tier, shard, nshards, seed, thin=1, only_ops=('insert',))

    # two-step histories with warm caches: a line comment put (setup) followed by the removal / cut of an enclosing statement
    for case in em.ancestor_two_step_grid(gen.TRIVIA_PROGRAMS, tier, shard, nshards, seed, thin=thin):
        if case['steps'][1]['op'] in ('remove', 'cut'):
            case['steps'][0]['setup'] = True

            yield case


def trivia_split(opt):
    """-> (leading comments kind, trailing comments kind) in {'none', 'block', 'all', 'line'} from a trivia option value,
    per docs d06."""

    if isinstance(opt, (tuple, list)):
        if len(opt) == 1:
            ld, tr = True, opt[0]
        else:
            ld, tr = opt[0], opt[1]
    else:
        ld, tr = opt, True

    def norm(v, is_tr):
        if v is True:
            return 'line' if is_tr else 'block'
        if v is False or v is None:
            return 'none'
        if isinstance(v, int):
            return 'all'  # line number: superset

        v = v.rstrip('0123456789').rstrip('+-')

        return v or 'none'

    return norm(ld, False), norm(tr, True)


def _char_pos(lines, lineno, col_b):
    return (lineno - 1, b2c(lines[lineno - 1], col_b))


def node_extent(lines, node):
    if not hasattr(node, 'lineno'):
        return None

    sl, sc = node.lineno, node.col_offset

    for d in getattr(node, 'decorator_list', ()):
        if (d.lineno, d.col_offset) < (sl, sc):
            sl, sc = d.lineno, d.col_offset - 1  # the '@' (may be further left with spaces: fixed up by token search)

    return _char_pos(lines, sl, max(sc, 0)), _char_pos(lines, node.end_lineno, node.end_col_offset)


def is_sep(tok):
    typ, s = tok[0], tok[1]

    return typ == tokenize.OP or (typ == tokenize.NAME and keyword.iskeyword(s))


def compute_amax(old, toks, node, parent, field, idx, opts, op):
    """-> (i0, i1) inclusive token index range of A_max in `toks`, or None if the element has no extent."""

    lines = old.split('\n')
    ext = node_extent(lines, node)

    if ext is None:
        return None

    start, end = ext
    inside = [i for i, t in enumerate(toks) if t[2] >= start and t[3] <= end]

    if not inside:
        return None

    i0, i1 = inside[0], inside[-1]

    if getattr(node, 'decorator_list', None):  # include the '@' of the first decorator (may be lines above with parens / comments)
        while i0 > 0 and toks[i0][1] != '@':
            i0 -= 1

    is_stmt = isinstance(node, (ast.stmt, ast.ExceptHandler, ast.match_case))
    deleting = op in ('remove', 'cut', 'delitem', 'delattr')
    ld, tr = trivia_split(opts.get('trivia', True))

    def own_line_comment(k):
        return toks[k][0] == tokenize.COMMENT and (k == 0 or toks[k - 1][3][0] < toks[k][2][0])

    def skip_comments_back(k):
        while k > 0 and toks[k - 1][0] == tokenize.COMMENT:
            k -= 1

        return k

    def skip_comments_fwd(k):
        while k + 1 < len(toks) and toks[k + 1][0] == tokenize.COMMENT:
            k += 1

        return k

    if not is_stmt:
        # own grouping parentheses; comments between the parentheses and the element lie inside the parenthesised extent
        while True:
            a = skip_comments_back(i0)
            b = skip_comments_fwd(i1)

            if a > 0 and b + 1 < len(toks) and toks[a - 1][1] == '(' and toks[b + 1][1] == ')':
                i0 = a - 1
                i1 = b + 1
            else:
                break

        # markers that belong to the element but not to its CPython extent
        if field in ('vararg', 'kwarg'):
            a = skip_comments_back(i0)

            if a > 0 and toks[a - 1][1] in ('*', '**'):
                i0 = a - 1

        if field in ('decorator_list', 'ifs'):  # prefix marker of the element
            a = skip_comments_back(i0)

            if a > 0 and toks[a - 1][1] == ('@' if field == 'decorator_list' else 'if'):
                i0 = a - 1

        if deleting and parent.__class__ is ast.Raise and field == 'exc':  # deleting exc deletes the cause as well (noted in pfst put_one)
            while i1 + 1 < len(toks) and toks[i1 + 1][2][0] <= parent.end_lineno - 1 and toks[i1 + 1][0] != tokenize.COMMENT:
                i1 += 1

        if deleting and parent.__class__ is ast.ExceptHandler and field == 'type':  # `as name` cannot stay without a type
            while i1 + 1 < len(toks) and toks[i1 + 1][1] != ':':
                i1 += 1

        if deleting and idx is not None:
            # deleting an element of a list is a slice delete: trivia option applies (docs d06), the separator goes first
            b = skip_comments_fwd(i1)

            if b + 1 < len(toks) and is_sep(toks[b + 1]) and toks[b + 1][1] not in (')', ']', '}'):
                i1 = b + 1

            if tr != 'none' and i1 + 1 < len(toks) and toks[i1 + 1][0] == tokenize.COMMENT and toks[i1 + 1][2][0] == toks[i1][3][0]:
                i1 += 1

            if tr in ('block', 'all'):
                last_ln = toks[i1][3][0]

                while i1 + 1 < len(toks) and own_line_comment(i1 + 1):
                    ln = toks[i1 + 1][2][0]

                    if tr == 'block' and ln != last_ln + 1:
                        break

                    i1 += 1
                    last_ln = ln

            if ld != 'none':
                first_ln = toks[i0][2][0]
                j = i0

                while j > 0 and own_line_comment(j - 1):
                    ln = toks[j - 1][2][0]

                    if ld == 'block' and ln != first_ln - 1:
                        break

                    j -= 1
                    first_ln = ln

                i0 = j

    else:
        # trailing: line comment (possibly after the statement's own trailing ';'), then block / all
        if tr != 'none' and i1 + 1 < len(toks) and toks[i1 + 1][0] == tokenize.COMMENT and toks[i1 + 1][2][0] == toks[i1][3][0]:
            i1 += 1
        elif (tr != 'none' and i1 + 2 < len(toks) and toks[i1 + 1][1] == ';' and toks[i1 + 2][0] == tokenize.COMMENT
              and toks[i1 + 2][2][0] == toks[i1][3][0]):
            i1 += 2

        if tr in ('block', 'all'):
            last_ln = toks[i1][3][0]

            while i1 + 1 < len(toks) and toks[i1 + 1][0] == tokenize.COMMENT:
                ln = toks[i1 + 1][2][0]

                if tr == 'block' and ln != last_ln + 1:
                    break

                if ln == toks[i1][3][0] and toks[i1][0] != tokenize.COMMENT:
                    break

                i1 += 1
                last_ln = ln

        # header of an optional block whose sole statement this is
        sole = isinstance(getattr(parent, field, None), list) and len(getattr(parent, field)) == 1
        j = i0

        if ld != 'none':
            first_ln = toks[i0][2][0]

            while j > 0 and own_line_comment(j - 1):
                ln = toks[j - 1][2][0]

                if ld == 'block' and ln != first_ln - 1:
                    break

                j -= 1
                first_ln = ln

        if sole and field in ('orelse', 'finalbody') and j >= 2 and toks[j - 1][1] == ':' and toks[j - 2][1] in ('else', 'finally'):
            j -= 2

            if ld != 'none':  # leading trivia of the first statement is anchored at the header line
                first_ln = toks[j][2][0]

                while j > 0 and own_line_comment(j - 1):
                    ln = toks[j - 1][2][0]

                    if ld == 'block' and ln != first_ln - 1:
                        break

                    j -= 1
                    first_ln = ln

        elif sole and field in ('orelse', 'finalbody') and j >= 3 and toks[j - 1][0] == tokenize.COMMENT and toks[j - 2][1] == ':' and toks[j - 3][1] in ('else', 'finally'):
            j -= 3  # `else:  # comment` header with line comment

            if ld != 'none':  # same anchoring of the leading trivia at the header line
                first_ln = toks[j][2][0]

                while j > 0 and own_line_comment(j - 1):
                    ln = toks[j - 1][2][0]

                    if ld == 'block' and ln != first_ln - 1:
                        break

                    j -= 1
                    first_ln = ln

        i0 = j

    if is_stmt and (hasattr(node, 'body') or hasattr(node, 'cases')) and i1 + 1 < len(toks) and toks[i1 + 1][0] == tokenize.COMMENT and toks[i1 + 1][2][0] == toks[i1][3][0]:
        i1 += 1  # line comment of the last child of a block statement is inside the block's bounding location (docs d02 .bloc)

    # one adjoining separator per side; comments between the element and its separator are inside the allowed region
    # (for elements of lists only a directly adjoining separator counts on the left: a comment after the previous element's
    # comma is that element's line comment and must survive)
    protected = []
    a = skip_comments_back(i0) if not is_stmt and (idx is None or deleting) else i0

    if a > 0 and is_sep(toks[a - 1]):
        if idx is not None:  # comments between the previous element's separator and this element stay protected
            protected = list(range(a, i0))

        i0 = a - 1

    b = skip_comments_fwd(i1) if not is_stmt and idx is None else i1

    if b + 1 < len(toks) and is_sep(toks[b + 1]):
        i1 = b + 1

        if not is_stmt and i1 + 1 < len(toks) and toks[i1][1] in (',',) and toks[i1 + 1][0] == tokenize.COMMENT and False:
            i1 += 1

    return i0, i1, protected


def logical_lines(src):
    """-> (start, end) dicts mapping each physical line (0-based) that is part of a multi-line logical line to the first /
    last physical line of that logical line."""

    import io

    lstart, lend = {}, {}
    cur = None

    for tok in tokenize.generate_tokens(io.StringIO(src).readline):
        if tok.type in (tokenize.NL, tokenize.COMMENT, tokenize.INDENT, tokenize.DEDENT, tokenize.ENDMARKER):
            continue

        if tok.type == tokenize.NEWLINE:
            if cur is not None:
                for ln in range(cur, tok.start[0]):
                    lstart[ln] = cur
                    lend[ln] = tok.start[0] - 1

            cur = None

            continue

        if cur is None:
            cur = tok.start[0] - 1

    return lstart, lend


def _strip(toks, expand_elif=False):
    out = []

    for t in toks:
        if expand_elif and t[0] == tokenize.NAME and t[1] == 'elif':
            out += [(tokenize.NAME, 'else'), (tokenize.OP, ':'), (tokenize.NAME, 'if')]
        else:
            out.append((t[0], t[1]))

    return out


def _match_prefix(old_p, new, tol_open=('(', '[')):
    """old_p must be a prefix of new, tolerating at most one inserted delimiter from `tol_open`."""

    if new[:len(old_p)] == old_p:
        return True, False

    i = j = 0
    used = False

    while i < len(old_p) and j < len(new):
        if old_p[i] == new[j]:
            i += 1
            j += 1
        elif not used and new[j][1] in tol_open:
            used = True
            j += 1
        else:
            return False, used

    return i == len(old_p), used


def check_edit(old, new, node, parent, field, idx, opts, op, desc, site, ctx, insertion_at=None):
    try:
        otoks = K_pos(old)
        ntoks = K_pos(new)
    except (tokenize.TokenError, IndentationError, SyntaxError):
        raise Skip('tokenize_failed') from None

    protected = ()

    if insertion_at is not None:
        i0, i1 = insertion_at
    else:
        am = compute_amax(old, otoks, node, parent, field, idx, opts, op)

        if am is None:
            ctx.count('skipped:no_extent')

            return None

        i0, i1, protected = am

    # elif <-> else: if rewriting is the one keyword change a statement move may require (option elif_)
    ex = parent.__class__ is ast.If and field == 'orelse' or (node is not None and node.__class__ is ast.If)
    old_pre = _strip(otoks[:i0], ex)
    old_suf = _strip(otoks[i1 + 1:], ex)
    new_s = _strip(ntoks, ex)

    if ex:
        ctx.count('elif_normalised_comparisons')

    ok, used = _match_prefix(old_pre, new_s)

    if not ok:
        k = next((k for k in range(min(len(old_pre), len(new_s))) if old_pre[k] != new_s[k]), min(len(old_pre), len(new_s)))

        raise Violation('C04.prefix_tokens', f'{desc}: token #{k} before the edited element changed: old {old_pre[k:k + 4]} new {new_s[k:k + 4]} '
                        f'(A_max tokens {[t[1] for t in otoks[i0:i1 + 1]][:12]})\n--- old ---\n{old[:1000]}\n--- new ---\n{new[:1000]}', f'prefix:{site}')

    if used:
        ctx.count('tolerated_added_open_delimiter')

    rev_ok, used = _match_prefix(old_suf[::-1], new_s[::-1], (')', ']', ','))  # ',' = singleton tuple comma

    if not rev_ok:
        a, b = old_suf[::-1], new_s[::-1]
        k = next((k for k in range(min(len(a), len(b))) if a[k] != b[k]), min(len(a), len(b)))

        raise Violation('C04.suffix_tokens', f'{desc}: token #{k} from the end after the edited element changed: old {a[k:k + 4]} new {b[k:k + 4]} '
                        f'(A_max tokens {[t[1] for t in otoks[i0:i1 + 1]][:12]})\n--- old ---\n{old[:1000]}\n--- new ---\n{new[:1000]}', f'suffix:{site}')

    if used:
        ctx.count('tolerated_added_close_delimiter')

    # deletion of a statement: whatever is left between the kept prefix and the kept suffix was already there inside A_max (comments that stay, a
    # block header) - a deletion invents no token
    if op in ('remove', 'cut') and isinstance(node, ast.stmt) and insertion_at is None:
        zone = Counter(_strip(otoks[i0:i1 + 1], ex))
        middle = Counter(new_s[len(old_pre):len(new_s) - len(old_suf)]) if len(old_pre) + len(old_suf) <= len(new_s) else Counter()
        residue = middle - zone

        for d in ('(', '[', ')', ']', ','):  # the tolerated delimiters above
            residue.pop((tokenize.OP, d), None)

        ctx.count('deletion_residue_checked')

        if residue:
            raise Violation('C04.residue', f'{desc}: the deletion left token(s) behind which were not in the source before: {[t[1] for t in residue][:8]}\n--- old ---\n{old[:1000]}\n--- new ---\n{new[:1000]}',
                            f'residue:{site}')

    # comments outside A_max conserved (none lost, none duplicated)
    out_comments = Counter(t[1] for k, t in enumerate(otoks) if t[0] == tokenize.COMMENT and (not i0 <= k <= i1 or k in protected))
    new_comments = Counter(t[1] for t in ntoks if t[0] == tokenize.COMMENT)
    lost = out_comments - new_comments

    if lost:
        raise Violation('C04.comment_lost', f'{desc}: comment(s) outside the element lost: {dict(lost)}\n--- old ---\n{old[:1000]}\n--- new ---\n{new[:1000]}', f'lost:{site}')

    # lines wholly before / after the logical lines touched by A_max are byte-identical, in order (blank lines adjacent to the
    # element may differ in count). The logical line (tokenize NEWLINE to NEWLINE, i.e. including backslash continuations and
    # `;`-joined statements) that contains the last kept token before / first kept token after A_max is excluded when it is the
    # same logical line as the element, because line structure may force it to be re-laid out.
    olines = old.split('\n')
    nlines = new.split('\n')

    if i0 <= i1 and i0 < len(otoks):
        first_ln = otoks[i0][2][0]
        last_ln = otoks[min(i1, len(otoks) - 1)][3][0]
    elif insertion_at is not None and otoks:
        first_ln = otoks[i0 - 1][3][0] + 1 if i0 > 0 else 0
        last_ln = first_ln - 1
    else:
        first_ln = last_ln = None

    if first_ln is not None:
        lstart, lend = logical_lines(old)
        head_end = min(lstart.get(first_ln, first_ln), first_ln)

        if i0 > 0:
            pl = otoks[i0 - 1][3][0]

            if insertion_at is not None or lstart.get(pl, pl) == lstart.get(first_ln, first_ln) or pl >= head_end:
                head_end = min(head_end, lstart.get(pl, pl))

        while head_end > 0 and olines[head_end - 1].rstrip().endswith('\\'):
            head_end -= 1  # backslash continuation lines (also a lone one before the first token) belong to the logical line

        head = olines[:max(head_end, 0)]

        while head and not head[-1].strip():
            head.pop()

        if nlines[:len(head)] != head:
            k = next(k for k in range(len(head)) if k >= len(nlines) or nlines[k] != head[k])

            raise Violation('C04.lines_before', f'{desc}: line {k} before the element changed: {head[k]!r} -> {nlines[k] if k < len(nlines) else None!r}\n--- old ---\n{old[:1000]}\n--- new ---\n{new[:1000]}',
                            f'lines_before:{site}')

        tail_start = max(lend.get(last_ln, last_ln), last_ln) + 1

        if i1 + 1 < len(otoks):
            nl = otoks[i1 + 1][2][0]

            if nl < tail_start or lstart.get(nl, nl) <= last_ln:
                tail_start = max(tail_start, lend.get(nl, nl) + 1)

        while tail_start < len(olines) and olines[tail_start].rstrip().endswith('\\') and not olines[tail_start].lstrip().startswith('#'):
            tail_start += 1  # lone continuation lines are glued to the following logical line

        tail = olines[tail_start:]

        while tail and not tail[0].strip():
            tail.pop(0)

        if tail and nlines[-len(tail):] != tail:
            raise Violation('C04.lines_after', f'{desc}: a line after the element changed\n--- old ---\n{old[:1000]}\n--- new ---\n{new[:1000]}',
                            f'lines_after:{site}')

    # non-triviality
    has_outside_comment = bool(out_comments)

    if first_ln is None:
        return has_outside_comment

    shared = any(t[2][0] == first_ln for t in otoks[:i0]) or any(t[3][0] == last_ln for t in otoks[i1 + 1:])
    multi = last_ln > first_ln
    near_comment = (first_ln > 0 and olines[first_ln - 1].lstrip().startswith('#')) or (last_ln + 1 < len(olines) and olines[last_ln + 1].lstrip().startswith('#'))

    return has_outside_comment and (shared or multi or near_comment)


COMMA_FIRST = re.compile(r'(?m)^[ \t]*,')
LONE_CONT = re.compile(r'(?m)^[ \t]*\\$|\\\n[ \t]*#')  # lone continuation line, or continuation directly followed by a comment line


PURE_INSERTS = ('insert', 'append', 'prepend', 'extend', 'prextend')


def check_expr_insertion(root, step, parent, field, n, old, ctx) -> bool:
    """Reduced clause for an insertion into a non-statement container (elements of a display, call arguments, names, patterns, ...): nothing is
    removed by an insertion, so every comment of the old source is still there, and the old content tokens (names, numbers, strings, comments)
    are, in order, a subsequence of the new ones. -> False when the sequence cannot go on."""

    try:
        ap = em.apply_step(root, step, c01.BASE_OPTS)
    except em.StepSkipped as s:
        ctx.count(f'step_skipped:{s.reason}')

        return True

    if ap.raised:
        ctx.count('steps_raised')

        return root.src == old

    new = root.src

    if new == old:
        return True

    try:
        otoks, ntoks = K_pos(old), K_pos(new)
    except Exception:
        return False

    site = f'{ap.op}:{ap.parent_cls}.{ap.field}'
    ctx.count('expr_insertions_checked(reduced clause)')
    ocom = Counter(t[1] for t in otoks if t[0] == tokenize.COMMENT)
    ncom = Counter(t[1] for t in ntoks if t[0] == tokenize.COMMENT)

    selected = Counter()

    if ocom - ncom:
        lost = ocom - ncom
        elems = [e for e in getattr(parent, field)]

        if field == 'keys' and getattr(parent, 'values', None):
            elems = [v if k is None else k for k, v in zip(elems, parent.values)]
            tails = list(parent.values)
        else:
            tails = elems

        def first_line(e):
            return min((x.lineno for x in ast.walk(e) if hasattr(x, 'lineno')), default=None) if isinstance(e, ast.AST) else None

        def last_line(e):
            return max((x.end_lineno for x in ast.walk(e) if hasattr(x, 'end_lineno')), default=None) if isinstance(e, ast.AST) else None

        start = step.get('start', 0)
        pos = n if step['op'] in ('append', 'extend') or start == 7 else 0 if step['op'] in ('prepend', 'prextend') else max(0, min(n, start + n if start < 0 else start))
        prev_end = last_line(tails[pos - 1]) if pos > 0 else None
        next_start = first_line(elems[pos]) if pos < n else None
        cont_end = getattr(parent, 'end_lineno', None) or max((x.end_lineno for x in ast.walk(parent) if hasattr(x, 'end_lineno')), default=None)
        olines = old.split('\n')
        kinds = set()
        leading_selected = trivia_split(ap.opts.get('trivia', True))[0] != 'none'

        # which OCCURRENCES are gone (a text may occur several times): alignment of the old and the new comment sequence
        import difflib

        # (aligned on ALL tokens, so that the neighbours decide between two comments with the same text)
        gone = []

        for tag, i1, i2, _, _ in difflib.SequenceMatcher(None, [t[1] for t in otoks], [t[1] for t in ntoks], autojunk=False).get_opcodes():
            if tag in ('delete', 'replace'):
                gone += [t for t in otoks[i1:i2] if t[0] == tokenize.COMMENT]

        still = Counter(t[1] for t in gone) - lost  # a comment inside a replaced range that is still there (moved within the range)

        if still:
            gone = [t for t in gone if not (still[t[1]] > 0 and not still.subtract([t[1]]))]

        for t in gone:
            ln = t[2][0] + 1
            own = olines[ln - 1].lstrip().startswith('#')

            if own and (prev_end is None or ln > prev_end) and (next_start is None or ln < next_start):
                # own-line comments next to the insertion point: before it when inserting before an element (leading part of the option), after it
                # when appending (trailing part of the option: 'block' / 'all' select comment lines)
                if (leading_selected if pos < n else trivia_split(ap.opts.get('trivia', True))[1] in ('block', 'all')):
                    selected[t[1]] += 1  # what the trivia option selects for overwriting (docs d06)
                else:
                    kinds.add('own_line_comment_before_insertion_point' if pos < n else 'own_line_comment_after_appended_element')
            elif not own and pos == n and prev_end is not None and prev_end <= ln <= (cont_end or ln):
                kinds.add('line_comment_of_last_element_on_append')  # after the last element (and its closing parentheses / trailing comma), before the container ends
            elif not own and prev_end is not None and ln == prev_end:
                kinds.add('line_comment_of_previous_element')
            else:
                kinds.add('elsewhere')

        if selected:
            ctx.count('comment_block_before_insertion_point_overwritten(selected by trivia option)')

        if kinds:
            where = '+'.join(sorted(kinds))

            raise Violation('C04.comment_lost', f'{ap.desc}: insertion at index {pos} of {ap.parent_cls}.{ap.field} lost comment(s) {dict(lost)} ({where})\n--- old ---\n{old[:800]}\n--- new ---\n{new[:800]}',
                            f'lost_insert_expr:{where}:{site}')

    content = (tokenize.NAME, tokenize.NUMBER, tokenize.STRING, tokenize.COMMENT)
    oc = []

    for t in otoks:
        if t[0] in content:
            if t[0] == tokenize.COMMENT and selected[t[1]] > 0:
                selected[t[1]] -= 1
            else:
                oc.append(t[1])

    it = iter(t[1] for t in ntoks if t[0] in content)

    for k, tok in enumerate(oc):
        if not any(x == tok for x in it):
            raise Violation('C04.insertion_disturbs', f'{ap.desc}: old content token #{k} {tok!r} is no longer at its place in the order of tokens\n--- old ---\n{old[:800]}\n--- new ---\n{new[:800]}',
                            f'order_insert_expr:{site}')

    if ocom:
        ctx.mark_nontrivial([old, step], {'src_before_edit': old[:300], 'edit': ap.desc} if len(old) % 37 == 0 else None)

    try:
        c01.check_invariant(root, ap, 'C04.pre')
    except Violation:
        ctx.count('c01_violation(reported by C01)')

        return False

    return True


def execute(case, ctx):
    if (why := c01.excluded(case['src'])) and not case.get('no_exclude'):
        raise Skip(f'excluded_known_finding:{why}')

    if COMMA_FIRST.search(case['src']):
        raise Skip('domain:comma_first_line')

    if LONE_CONT.search(case['src']):
        raise Skip('domain:lone_continuation_line')  # which "line" such a physical line belongs to is ambiguous (see ASSUMPTIONS)

    try:
        root = FST(case['src'], 'exec')
    except Exception as exc:
        raise Skip(f'build_failed:{type(exc).__name__}') from None

    for i, step in enumerate(case['steps']):
        if step.get('setup'):  # an edit that only prepares the state (e.g. a line comment put): applied, not judged here
            try:
                ap0 = em.apply_step(root, step, c01.BASE_OPTS)
            except em.StepSkipped:
                return

            if ap0.raised:
                return

            continue

        old = root.src

        try:
            ref = ast.parse(old)
        except SyntaxError:
            return

        node = parent = field = idx = None
        insertion_at = None
        elif_chain = False

        if step['op'] in NODE_OPS:
            live = em.node_targets(root.a)
            reft = em.node_targets(ref)

            if len(live) != len(reft) or not live:
                return

            k = step['tsel'] % len(live)
            node, parent, field, idx = reft[k]

            if node.__class__ is not live[k][0].__class__:
                return

        else:
            livec = em.container_targets(root.a)
            refc = em.container_targets(ref)

            if len(livec) != len(refc) or not livec:
                return

            k = step['tsel'] % len(livec)
            parent, field, n = refc[k]

            if field.startswith('_') or em.slice_kind(parent, field) != 'stmts' or not n:
                if step['op'] in PURE_INSERTS and n and not isinstance(parent, (ast.JoinedStr, ast.FormattedValue)):
                    if not check_expr_insertion(root, step, parent, field, n, old, ctx):
                        return

                    continue

                ctx.count('skipped:insert_non_stmt_container')

                continue

            elif_chain = field == 'orelse' and parent.__class__ is ast.If and n == 1 and getattr(parent, field)[0].__class__ is ast.If

        try:
            ap = em.apply_step(root, step, c01.BASE_OPTS)
        except em.StepSkipped as s:
            ctx.count(f'step_skipped:{s.reason}')

            continue

        if ap.raised:
            ctx.count('steps_raised')

            if root.src != old:
                return

            continue

        new = root.src

        broken = False

        try:
            c01.check_invariant(root, ap, 'C04.pre')
        except Violation:
            ctx.count('c01_violation(reported by C01)')
            broken = True  # source and tree disagree: the text clauses below are still decidable if the new source tokenises; the sequence stops after this step

            try:
                K_pos(new)
            except Exception:
                return

        if new == old:
            ctx.count('noop_edits')

            continue

        site = f'{ap.op}:{ap.parent_cls}.{ap.field}'

        if elif_chain:
            # insertion into an `elif` chain rewrites `elif` to `else:` + `if` and re-indents the old block: positions cannot be compared, but no
            # comment may be lost and no string token may change except the documented re-indentation of docstring-like statements (option docstr)
            ctx.count('elif_chain_insertions_checked(reduced clause)')
            docstr = ap.opts.get('docstr', True)
            reindentable = set()

            if docstr is not False:
                for n_ in ast.walk(ref):
                    for f_ in ('body', 'orelse', 'finalbody'):
                        for k_, st_ in enumerate(v_ if isinstance(v_ := getattr(n_, f_, None), list) else ()):
                            if isinstance(st_, ast.Expr) and isinstance(st_.value, ast.Constant) and isinstance(st_.value.value, str) and st_.end_lineno > st_.lineno:
                                if docstr is True or (k_ == 0 and f_ == 'body' and isinstance(n_, (ast.FunctionDef, ast.AsyncFunctionDef, ast.ClassDef, ast.Module))):
                                    reindentable.add((st_.lineno, st_.col_offset))

            ostr = Counter(t[1] for t in K_pos(old) if t[0] == tokenize.STRING and '\n' in t[1] and (t[2][0] + 1, len(old.split('\n')[t[2][0]][:t[2][1]].encode())) not in reindentable)
            nstr = Counter(t[1] for t in K_pos(new) if t[0] == tokenize.STRING)
            ocom = Counter(t[1] for t in K_pos(old) if t[0] == tokenize.COMMENT)
            ncom = Counter(t[1] for t in K_pos(new) if t[0] == tokenize.COMMENT)

            if ostr - nstr:
                raise Violation('C04.string_changed', f'{ap.desc}: multi-line string token(s) outside the inserted element changed although docstr={docstr!r} does not allow it: '
                                f'{[x[:60] for x in (ostr - nstr)]}\n--- old ---\n{old[:800]}\n--- new ---\n{new[:800]}', f'string:{site}')

            if ocom - ncom:
                raise Violation('C04.comment_lost', f'{ap.desc}: comment(s) lost: {dict(ocom - ncom)}\n--- old ---\n{old[:800]}\n--- new ---\n{new[:800]}', f'lost_elif:{site}')

            continue

        if step['op'] not in NODE_OPS:
            # statement insertion at index `start` of a non-empty statement list: prefix = everything through the end of
            # stmt[start-1] (with its line comment), suffix = everything from the first token of stmt[start]
            body = getattr(parent, field)
            start = step['start']
            n = len(body)
            pos = n if start == 7 else max(0, min(n, start + n if start < 0 else start))
            lines = old.split('\n')
            otoks = K_pos(old)

            if pos < n:
                s = node_extent(lines, body[pos])[0]
                i_first = next(i for i, t in enumerate(otoks) if t[2] >= s)

                if getattr(body[pos], 'decorator_list', None):
                    while i_first > 0 and otoks[i_first][1] != '@':
                        i_first -= 1
            else:
                e = node_extent(lines, body[n - 1])[1]
                i_first = next((i for i, t in enumerate(otoks) if t[2] >= e), len(otoks))

                if i_first < len(otoks) and otoks[i_first][1] == ';':
                    i_first += 1

                if i_first < len(otoks) and otoks[i_first][0] == tokenize.COMMENT and otoks[i_first][2][0] == e[0]:
                    i_first += 1  # line comment of last statement stays with it

                # everything after the block's last statement up to the next token is free (comments may go either side)
            if pos > 0:
                e = node_extent(lines, body[pos - 1])[1]
                i_prev_end = max((i for i, t in enumerate(otoks) if t[3] <= e), default=-1)

                if i_prev_end + 1 < len(otoks) and otoks[i_prev_end + 1][0] == tokenize.COMMENT and otoks[i_prev_end + 1][2][0] == e[0]:
                    i_prev_end += 1
            else:
                i_prev_end = i_first - 1

                while i_prev_end >= 0 and otoks[i_prev_end][0] == tokenize.COMMENT:
                    i_prev_end -= 1

            # separators / own-line comments between prev end and next first are free: A_max = (i_prev_end+1 .. i_first-1)
            insertion_at = (i_prev_end + 1, (i_first - 1) if pos < n else min(len(otoks) - 1, max(i_first - 1, i_prev_end)))

            if pos >= n:
                # appended at end of block: following own-line comments may end up before or after the new statement
                j = insertion_at[1]

                while j + 1 < len(otoks) and otoks[j + 1][0] == tokenize.COMMENT:
                    j += 1

                insertion_at = (insertion_at[0], j)

            # comments inside the free zone must still be conserved: checked by adding them back
            zone_comments = Counter(t[1] for t in otoks[insertion_at[0]:insertion_at[1] + 1] if t[0] == tokenize.COMMENT)
            new_comments = Counter(t[1] for t in K_pos(new) if t[0] == tokenize.COMMENT)

            if zone_comments - new_comments:
                raise Violation('C04.comment_lost', f'{ap.desc}: comment(s) next to the insertion point lost: {dict(zone_comments - new_comments)}\n--- old ---\n{old[:1000]}\n--- new ---\n{new[:1000]}',
                                f'lost_insert:{site}')

        ctx.count('edits_checked')
        ctx.count(f'op:{ap.op}')
        nontrivial = check_edit(old, new, node, parent, field, idx, ap.opts, ap.op, ap.desc, site, ctx, insertion_at)

        if nontrivial:
            ctx.mark_nontrivial([case['src'], case['steps'][:i + 1]], {'src_before_edit': old[:400], 'edit': ap.desc})

        if broken:
            return
