"""C17 - matching depends only on structure; quantifiers behave like regular expressions."""

from __future__ import annotations

import ast
import copy
import itertools
import re

from hypothesis import strategies as st

from .. import editmachine as em
from .. import gen
from ..editmachine import FST
from ..oracle import S0
from ..runner import Skip, Violation

ID = 'C17'
LEVEL = 'exploration'
TECHNIQUE = 'bounded exhaustive enumeration of quantifier pattern sequences against Python re (reference by translation) + property-based metamorphic tests (layout / representation independence, self-match, single-leaf perturbation, statelessness, search == filtered walk)'
RULE = ('(quantifier grid) every sequence of <= 2 (quick) / <= 3 (thorough, seeded slice) pattern atoms from {literal a, literal b, wildcard, '
        'MQ / MQ.NG with (min,max) in {(0,inf),(1,inf),(0,1),(1,2),(2,2),(0,2)} over {a, wildcard, sub-sequence [a,b], sub-sequence [a, MQSTAR(b)]}, '
        'tagged M(t=...) with back-reference MTAG} against every element sequence over {a,b,c} of length <= 4 (<= 5 thorough) placed in List.elts, '
        'Module.body and Global.names; reference = translation to a Python regex over one character per element (lazy {m,n}?, sub-sequence '
        'iteration as atomic group (?>...), back-reference (?P=t)); accept / reject must equal re.fullmatch and the number of iterations captured '
        'by the first tagged quantifier must equal the regex group span. (structure) for Hypothesis-drawn nodes of programs: a pattern built from '
        'the node\'s own pure AST (sub-trees replaced by wildcards, wrapped in M / MOR / MAND / MNOT / MTYPES / MCB combinators) gives the same '
        'verdict and tags on FST(p), on a layout-mutated FST(L(p)) and on ast.parse(p); the own AST matches, a single-leaf perturbation '
        '(identifier, constant value or type, operator class, list length) does not; the verdict is identical before and after unrelated '
        'match / search calls and tag containers are not shared between results; list(search(p)) equals the nodes of walk(all=True) that '
        'match(p) accepts, in order, also with nested=False, back, recurse and scope, and for patterns that are instances of field-less leaf classes (contexts, operators, Pass ...) bare and inside combinators with ctx=False / True. Non-trivial = quantifier cases where the regex had to '
        'backtrack (greedy first attempt differs from the final match) or combinator patterns on non-leaf targets; distinct by case.')
ASSUMPTIONS = [
    'regex translation assumes the documented semantics: greedy by default, .NG lazy, sub-sequence iterations do not mix their backtracking with the parent (atomic)',
    'patterns contain no source-text (str / re) sub-patterns except for primitive string fields',
    'search() is compared with walk(all=True) filtered by match(), which is what the implementation documents as its meaning',
]

# ----------------------------------------------------------------------------------------------------------------------
# quantifier grid

RANGES = ((0, None), (1, None), (0, 1), (1, 2), (2, 2), (0, 2))
SUBS = ('a', '.', 'ab', 'aB*')  # literal a, wildcard, sub-sequence [a, b], sub-sequence [a, MQSTAR(b)]
ATOMS = [('lit', 'a'), ('lit', 'b'), ('any',)] + [('q', g, lo, hi, sub) for g in (True, False) for lo, hi in RANGES for sub in SUBS]
BACKREF_SEQS = [
    [('tag', 'any'), ('q', True, 0, None, '.'), ('ref',)],
    [('tag', 'any'), ('ref',)],
    [('tag', 'any'), ('q', False, 0, None, '.'), ('ref',), ('q', True, 0, None, '.')],
    [('q', True, 0, None, '.'), ('tag', 'lit_a'), ('ref',)],
    [('tag', 'any'), ('q', True, 1, 2, 'a'), ('ref',)],
]
# a tag set INSIDE an (untagged) quantifier, optionally with static tags on the quantifier, then a back-reference: the tag must be the one of the
# last iteration that survives back-off, exactly like a group inside a repeated non-capturing regex group
for _g in (True, False):
    for _lo, _hi in RANGES:
        for _st in (False, True):
            BACKREF_SEQS.append([('qtag', _g, _lo, _hi, _st), ('ref',)])
            BACKREF_SEQS.append([('qtag', _g, _lo, _hi, _st), ('ref',), ('q', True, 0, None, '.')])
            BACKREF_SEQS.append([('any',), ('qtag', _g, _lo, _hi, _st), ('ref',), ('lit', 'a')])

CONTAINERS = ('List.elts', 'Module.body', 'Global.names')


def targets(maxlen):
    for n in range(maxlen + 1):
        for t in itertools.product('abc', repeat=n):
            yield ''.join(t)


def params(tier):
    if tier == 'quick':
        return {'examples': 900, 'wall': 120, 'case_timeout': 60, 'seqlen': 2, 'tlen': 4}

    return {'examples': 10000, 'wall': 600, 'case_timeout': 120, 'seqlen': 3, 'tlen': 5}


def floors(tier):
    return {'distinct_nontrivial': 2000 if tier == 'quick' else 40000}


def enumerate_cases(tier, shard, nshards, seed):
    p = params(tier)
    k = 0

    for n in range(1, p['seqlen'] + 1):
        for seq in itertools.product(range(len(ATOMS)), repeat=n):
            k += 1

            if k % nshards != shard:
                continue

            if n == 3 and (k * 2654435761 + seed * 40503) % 16:
                continue  # seeded slice of the length-3 space

            yield {'grid': list(seq), 'cont': CONTAINERS[k % 3] if n > 1 else CONTAINERS[(k // nshards) % 3], 'tlen': p['tlen'] if n < 3 else 4}

    # structural clause on the saturated / template programs: every node x every pattern combinator (drawn cases only reach combinators 0..12)
    progs = gen.saturated_programs()[::5] + gen.SYN_PROGRAMS
    kk = 0

    for src in progs:
        try:
            nn = len([1 for n, _, _, _ in em.node_targets(ast.parse(src)) if not isinstance(n, ast.expr_context)])
        except SyntaxError:
            continue

        for ni in range(nn):
            for comb in range(25):
                kk += 1

                if kk % nshards != shard:
                    continue

                if tier == 'quick' and (kk * 2654435761 + seed * 40503) % 3:
                    continue

                yield {'src': src, 'nsel': [ni], 'wild': [] if comb % 2 else [ni * 7 + comb], 'comb': comb, 'pert': ni * 31 + comb, 'layout': [], 'sopt': (ni + comb) % 8, 'enumerated': True}

    # search() == filtered walk for patterns which are INSTANCES of field-less leaf classes (expr_context, operators, Pass ...), bare and inside
    # combinators, with ctx=False (a context instance matches any context) and ctx=True: the node-type pre-filter of search() must agree with match()
    for j, src in enumerate(gen.SYN_PROGRAMS + LEAFINST_PROGRAMS):
        if j % nshards == shard:
            yield {'leafinst': True, 'src': src}

    if shard == 0:
        for bi in range(len(BACKREF_SEQS)):
            for cont in CONTAINERS:
                yield {'backref': bi, 'cont': cont, 'tlen': p['tlen']}


def regex_of(atoms):
    out = []
    first_tagged = None

    for i, a in enumerate(atoms):
        if a[0] == 'lit':
            out.append(a[1])
        elif a[0] == 'any':
            out.append('.')
        elif a[0] == 'tag':
            out.append('(?P<t>.)' if a[1] == 'any' else '(?P<t>a)')
        elif a[0] == 'ref':
            out.append('(?P=t)')
        elif a[0] == 'qtag':
            _, greedy, lo, hi, _st = a
            out.append('(?:(?P<t>.)){%d,%s}' % (lo, '' if hi is None else hi) + ('' if greedy else '?'))
        else:
            _, greedy, lo, hi, sub = a
            body = {'a': 'a', '.': '.', 'ab': '(?>ab)', 'aB*': '(?>ab*)'}[sub]
            rng = '{%d,%s}' % (lo, '' if hi is None else hi)
            q = f'(?:{body}){rng}' + ('' if greedy else '?')

            if first_tagged is None:
                first_tagged = (i, sub)
                q = f'(?P<q>{q})'

            out.append(q)

    return ''.join(out), first_tagged


def pattern_of(atoms, cont):
    from fst.match import MQ, MTAG, M, MName, MExpr, MQSTAR

    def lit(c):
        if cont == 'Global.names':
            return c
        if cont == 'Module.body':
            return MExpr(MName(c))

        return MName(c)

    pats = []
    tagged = False

    for a in atoms:
        if a[0] == 'lit':
            pats.append(lit(a[1]))
        elif a[0] == 'any':
            pats.append(...)
        elif a[0] == 'tag':
            pats.append(M(t=... if a[1] == 'any' else lit('a')))
        elif a[0] == 'ref':
            pats.append(MTAG('t'))
        elif a[0] == 'qtag':
            _, greedy, lo, hi, static = a
            pats.append((MQ if greedy else MQ.NG)(M(t=...), min=lo, max=hi, **({'st1': 1, 'st2': 'x'} if static else {})))
        else:
            _, greedy, lo, hi, sub = a
            body = {'a': lit('a'), '.': ..., 'ab': [lit('a'), lit('b')], 'aB*': [lit('a'), MQSTAR(lit('b'))]}[sub]
            cls = MQ if greedy else MQ.NG

            if not tagged:
                tagged = True
                pats.append(cls(q=body, min=lo, max=hi))
            else:
                pats.append(cls(body, min=lo, max=hi))

    return pats


def make_target(seq, cont):
    if cont == 'List.elts':
        f = FST('[' + ', '.join(seq) + ']')

        return f, 'elts'

    if cont == 'Module.body':
        return FST('\n'.join(seq), 'exec'), 'body'

    if not seq:
        return None, None

    return FST('global ' + ', '.join(seq)), 'names'


def run_grid(case, ctx):
    from fst.match import MList, MModule, MGlobal

    atoms = [tuple(a) for a in case['atoms']] if 'atoms' in case else [ATOMS[i] for i in case['grid']] if 'grid' in case else BACKREF_SEQS[case['backref']]
    cont = case['cont']
    rx, first_tagged = regex_of(atoms)
    creg = re.compile(rx)
    pats = pattern_of(atoms, cont)
    pat = {'List.elts': lambda: MList(elts=pats), 'Module.body': lambda: MModule(body=pats), 'Global.names': lambda: MGlobal(names=pats)}[cont]()

    for seq in targets(case['tlen']):
        tgt, field = make_target(seq, cont)

        if tgt is None:
            continue

        ctx.count('grid_matches')
        want = creg.fullmatch(seq)

        try:
            got = pat.match(tgt)
        except Exception as exc:
            raise Violation('C17.quantifier_raise', f'pattern {atoms} on {seq!r} in {cont} raised {exc!r}', f'raise:{cont}') from None

        desc = f'pattern atoms {atoms} (regex {rx!r}) on element sequence {seq!r} in {cont}'

        if bool(got) != bool(want):
            raise Violation('C17.quantifier_accept', f'{desc}: pfst {"matches" if got else "does not match"}, regex {"matches" if want else "does not match"}',
                            f'accept:{"sub" if any(a[0] == "q" and len(a[4]) > 1 for a in atoms) else "single"}:{"ng" if any(a[0] == "q" and not a[1] for a in atoms) else "greedy"}')

        if want and first_tagged is not None:
            i, sub = first_tagged
            span = want.end('q') - want.start('q')
            caps = got.tags.get('q')

            if caps is None:
                raise Violation('C17.quantifier_capture', f'{desc}: tagged quantifier has no tag in the result', 'capture')

            if sub in ('a', '.'):
                n_want = span
            elif sub == 'ab':
                n_want = span // 2
            else:
                n_want = None  # variable length iterations: compare total elements

            if n_want is not None and len(caps) != n_want:
                raise Violation('C17.quantifier_capture', f'{desc}: quantifier captured {len(caps)} iterations, regex group spans {span} elements ({n_want} iterations)',
                                f'capture:{"ng" if not atoms[i][1] else "greedy"}')

            if n_want is None:
                total = sum(len(c.matched) if isinstance(c.matched, list) else 1 for c in caps)

                if total != span:
                    raise Violation('C17.quantifier_capture', f'{desc}: quantifier captured {total} elements, regex group spans {span}', 'capture:varlen')

        # non-trivial: the regex needed backtracking = greedy-first-attempt differs; approximated by: contains a quantifier followed by something
        if any(a[0] == 'q' for a in atoms[:-1]) and seq:
            ctx.mark_nontrivial(('grid', tuple(map(str, atoms)), seq, cont), {'atoms': [str(a) for a in atoms], 'regex': rx, 'elements': seq, 'container': cont, 'matches': bool(want)}
                                if hash(seq) % 211 == 0 and len(ctx.samples) < 4 else None)


# ----------------------------------------------------------------------------------------------------------------------
# structural part


def strategy(tier):
    @st.composite
    def strat(draw):
        return {'src': draw(gen.program(35)), 'nsel': draw(st.lists(st.integers(0, 1 << 30), min_size=1, max_size=4)), 'wild': draw(st.lists(st.integers(0, 1 << 20), max_size=3)),
                'comb': draw(st.integers(0, 9)), 'pert': draw(st.integers(0, 1 << 20)), 'layout': draw(gen.layout_draws), 'sopt': draw(st.integers(0, 7))}

    return strat()


def wildcard_copy(a, sels):
    """Deep copy of pure AST `a` with up to len(sels) sub-trees (AST-valued fields) replaced by the wildcard."""

    a = copy.deepcopy(a)

    for sel in sels:
        slots = []

        for n in ast.walk(a):
            if isinstance(n, ast.AST):
                for f in n._fields:
                    v = getattr(n, f, None)

                    if isinstance(v, ast.AST) and not isinstance(v, (ast.expr_context,)):
                        slots.append((n, f, None))
                    elif isinstance(v, list):
                        for i, e in enumerate(v):
                            if isinstance(e, ast.AST):
                                slots.append((n, f, i))

        if not slots:
            break

        n, f, i = slots[sel % len(slots)]

        if i is None:
            setattr(n, f, ...)
        else:
            getattr(n, f)[i] = ...

    return a


def perturb(a, sel):
    """Copy of `a` that differs in exactly one leaf (identifier, constant, operator class, list length). None if no leaf."""

    a = copy.deepcopy(a)
    leaves = []

    for n in ast.walk(a):
        if isinstance(n, ast.Name):
            leaves.append(('id', n))
        elif isinstance(n, ast.Constant) and not isinstance(n.value, (str, bytes)) or isinstance(n, ast.Constant) and isinstance(n.value, str):
            leaves.append(('const', n))
        elif isinstance(n, ast.Attribute):
            leaves.append(('attr', n))
        elif isinstance(n, (ast.BinOp, ast.UnaryOp, ast.BoolOp)):
            leaves.append(('op', n))
        elif isinstance(n, ast.arg):
            leaves.append(('arg', n))
        elif isinstance(n, (ast.List, ast.Tuple, ast.Set)) and n.elts:
            leaves.append(('len', n))
        elif isinstance(n, ast.keyword) and n.arg:
            leaves.append(('kw', n))
        elif isinstance(n, (ast.FunctionDef, ast.ClassDef, ast.AsyncFunctionDef)):
            leaves.append(('name', n))

    if not leaves:
        return None, None

    kind, n = leaves[sel % len(leaves)]

    if kind == 'id':
        n.id += '_x'
    elif kind == 'attr':
        n.attr += '_x'
    elif kind == 'arg':
        n.arg += '_x'
    elif kind == 'kw':
        n.arg += '_x'
    elif kind == 'name':
        n.name += '_x'
    elif kind == 'const':
        v = n.value

        if v is True:
            n.value = 1
        elif v is False:
            n.value = 0
        elif v is None:
            n.value = False
        elif v is ...:
            n.value = None
        elif isinstance(v, int):
            n.value = float(v) if sel % 2 else v + 1
        elif isinstance(v, float):
            n.value = v + 1.0
        elif isinstance(v, complex):
            n.value = v + 1
        elif isinstance(v, str):
            n.value = v + 'x'
    elif kind == 'op':
        if isinstance(n, ast.BinOp):
            n.op = ast.Sub() if isinstance(n.op, ast.Add) else ast.Add()
        elif isinstance(n, ast.UnaryOp):
            n.op = ast.Not() if not isinstance(n.op, ast.Not) else ast.USub()
        else:
            n.op = ast.Or() if isinstance(n.op, ast.And) else ast.And()
    elif kind == 'len':
        n.elts = n.elts[:-1]

    return a, kind


def tag_shape(m, root):
    """Comparable description of a match result: tags -> structure of what was captured (paths are representation dependent, so
    captured nodes are compared by structure)."""

    if m is None:
        return None

    def d(v):
        if isinstance(v, FST):
            return ('node', S0(v.a))
        if isinstance(v, ast.AST):
            return ('node', S0(v))
        if isinstance(v, list):
            return ('list', tuple(d(x) for x in v))
        if hasattr(v, 'matched') and hasattr(v, 'tags'):
            return ('match', d(v.matched), tuple(sorted((k, d(x)) for k, x in v.tags.items())))
        if hasattr(v, 'base') and hasattr(v, 'field'):
            try:
                return ('list', tuple(d(x) for x in v))
            except Exception:
                return ('view',)

        return ('prim', repr(v))

    return tuple(sorted((k, d(v)) for k, v in m.tags.items()))


SELF_MATCH_KINDS = {'fieldwrap_M', 'fieldwrap_MAND', 'fieldwrap_MOR', 'plain', 'M', 'MOR', 'MAND', 'MNOT2', 'MTYPES', 'MCB', 'MOR_MAND', 'type', 'MOR_type_cb', 'MOR_cb_types', 'MAND_MNOT_cb', 'M_MOR_MOR', 'MOR_MTYPES_cb',
                    'MNOT2_MOR', 'MAND_MOR', 'MOR_MAND_cb'}


def _is_cls(cls):
    return lambda n: (n.a if hasattr(n, 'a') and not isinstance(n, ast.AST) else n).__class__ is cls


def build_pattern(base, comb, other_cls):
    from fst.match import M, MAND, MCB, MNOT, MOR, MRE, MTYPES

    c = comb % 25
    bcls = base.__class__

    # 22..24: the pattern is the node's own AST with every list-valued field wrapped in a non-list pattern (tagging M, MAND, MOR), so that the
    # field reaches the list matcher as a view / through a combinator instead of as a plain list
    if c in (22, 23, 24) and isinstance(base, ast.AST):
        wrapped = False

        for n in ast.walk(base):
            for f in n._fields:
                v = getattr(n, f, None)

                if isinstance(v, list) and all(isinstance(e, ast.AST) or e is None or e is ... for e in v):
                    setattr(n, f, M(**{f'w_{f}': v}) if c == 22 else MAND(v, ...) if c == 23 else MOR(other_cls, v))
                    wrapped = True

        return base, ('fieldwrap_M', 'fieldwrap_MAND', 'fieldwrap_MOR')[c - 22] if wrapped else 'plain'

    # 10..21: combinations that exercise search()'s node-type pre-filter: alternatives whose node type is known mixed with ones where it is not
    if c == 10:
        return MOR(other_cls, MCB(_is_cls(bcls))), 'MOR_type_cb'
    if c == 11:
        return MOR(MCB(_is_cls(bcls)), other_cls, ast.Name), 'MOR_cb_types'
    if c == 12:
        return MNOT(base), 'MNOT_node'
    if c == 13:
        return MNOT(MOR(other_cls, base)), 'MNOT_MOR'
    if c == 14:
        return MAND(MNOT(other_cls), MCB(_is_cls(bcls))), 'MAND_MNOT_cb'
    if c == 15:
        return M(MOR(MOR(other_cls, MCB(_is_cls(bcls))), ast.Constant), t=1), 'M_MOR_MOR'
    if c == 16:
        return MOR(other_cls, MRE('[a-z_]', search=True)), 'MOR_type_re'
    if c == 17:
        return MOR(MTYPES((other_cls, ast.Name)), MCB(_is_cls(bcls))), 'MOR_MTYPES_cb'
    if c == 18:
        return MNOT(MNOT(MOR(bcls, MCB(lambda n: False)))), 'MNOT2_MOR'
    if c == 19:
        return MAND(MOR(bcls, MCB(lambda n: True)), MNOT(other_cls)), 'MAND_MOR'
    if c == 20:
        return MOR(MAND(bcls, MCB(lambda n: True)), MCB(_is_cls(ast.Name))), 'MOR_MAND_cb'
    if c == 21:
        return MNOT(MTYPES((other_cls, ast.Name))), 'MNOT_MTYPES'

    if c == 0:
        return base, 'plain'
    if c == 1:
        return M(tag=base, flag=True), 'M'
    if c == 2:
        return MOR(other_cls, hit=base), 'MOR'
    if c == 3:
        return MAND(base.__class__, base), 'MAND'
    if c == 4:
        return MNOT(MNOT(base)), 'MNOT2'
    if c == 5:
        return MTYPES((base.__class__, other_cls)), 'MTYPES'
    if c == 6:
        return MCB(lambda n: True), 'MCB'
    if c == 7:
        return MOR(MAND(base, M(base, inner=1)), other_cls), 'MOR_MAND'
    if c == 8:
        return base.__class__, 'type'

    return MNOT(other_cls), 'MNOT'


def run_struct(case, ctx):
    src = case['src']

    try:
        pure = ast.parse(src)
        root = FST(src, 'exec')
    except Exception as exc:
        raise Skip(f'build_failed:{type(exc).__name__}') from None

    lsrc = gen.mutate_layout(src, case['layout']) if case['layout'] else src

    try:
        lroot = FST(lsrc, 'exec') if lsrc != src else None
    except Exception:
        lroot = None

    live = [n for n, _, _, _ in em.node_targets(root.a) if not isinstance(n, (ast.expr_context,))]
    purel = [n for n, _, _, _ in em.node_targets(pure) if not isinstance(n, (ast.expr_context,))]
    layl = [n for n, _, _, _ in em.node_targets(lroot.a) if not isinstance(n, (ast.expr_context,))] if lroot else None

    if not live or len(live) != len(purel) or (layl is not None and len(layl) != len(live)):
        raise Skip('node_lists_differ')

    for k, nsel in enumerate(case['nsel']):
        i = nsel % len(live)
        tnode, pnode = live[i], purel[i]

        if isinstance(tnode, (ast.JoinedStr, ast.FormattedValue)):
            continue

        base = wildcard_copy(pnode, case['wild'])
        other_cls = ast.Pass if not isinstance(tnode, ast.Pass) else ast.Break
        pat, pkind = build_pattern(base, case['comb'] + k, other_cls)
        site = f'{pkind}:{tnode.__class__.__name__}'
        desc = f'{pkind} pattern from own AST of {tnode.__class__.__name__} ({ast.unparse(pnode)[:80]!r})'
        f = tnode.f
        ctx.count('struct_matches')
        ctx.count(f'pattern:{pkind}')

        try:
            m_fst = f.match(pat)
        except Exception as exc:
            raise Violation('C17.match_raise', f'{desc}: match on FST raised {exc!r}', f'raise:{site}') from None

        expect_match = pkind != 'MNOT' and pkind != 'MTYPES' or True

        if pkind in SELF_MATCH_KINDS and m_fst is None:
            raise Violation('C17.self_match', f'{desc}: the node does not match a pattern built from its own pure AST\n--- src ---\n{src[:500]}', f'self:{site}')

        # representation independence: pure AST target
        try:
            from fst.match import M_Pattern
            m_ast = pat.match(pnode) if isinstance(pat, M_Pattern) else None
        except Exception as exc:
            raise Violation('C17.match_raise', f'{desc}: match on pure AST raised {exc!r}', f'raise_ast:{site}') from None

        if isinstance(pat, M_Pattern):
            if (m_ast is None) != (m_fst is None):
                raise Violation('C17.representation', f'{desc}: verdict on FST ({m_fst is not None}) differs from verdict on pure AST ({m_ast is not None})', f'repr:{site}')

            if m_fst is not None and tag_shape(m_fst, root) != tag_shape(m_ast, None):
                raise Violation('C17.representation', f'{desc}: tags on FST differ from tags on pure AST\n fst: {str(tag_shape(m_fst, root))[:300]}\n ast: {str(tag_shape(m_ast, None))[:300]}', f'repr_tags:{site}')

        # layout independence
        if layl is not None:
            try:
                m_lay = layl[i].f.match(pat)
            except Exception as exc:
                raise Violation('C17.match_raise', f'{desc}: match on layout variant raised {exc!r}', f'raise_layout:{site}') from None

            if (m_lay is None) != (m_fst is None) or (m_fst is not None and tag_shape(m_lay, lroot) != tag_shape(m_fst, root)):
                raise Violation('C17.layout', f'{desc}: result depends on layout\n--- a ---\n{src[:300]}\n--- b ---\n{lsrc[:300]}', f'layout:{site}')

            ctx.count('layout_pairs')

        # single-leaf perturbation must not match (plain patterns only)
        if pkind in ('plain', 'M', 'MAND'):
            pert, what = perturb(pnode, case['pert'] + k)

            if pert is not None and S0(pert) != S0(pnode):
                try:
                    m_p = f.match(pert)
                except Exception as exc:
                    raise Violation('C17.match_raise', f'{desc}: match of perturbed pattern raised {exc!r}', f'raise_pert:{site}') from None

                ctx.count(f'perturbations:{what}')

                if m_p is not None:
                    raise Violation('C17.perturbation', f'{tnode.__class__.__name__} ({ast.unparse(pnode)[:80]!r}) matches a pattern that differs in one leaf ({what}): {ast.unparse(pert)[:80]!r}',
                                    f'pert:{what}')

        # statelessness
        others = [live[(nsel * 7 + j * 13) % len(live)] for j in range(3)]

        for o in others:
            try:
                o.f.match(pat)
                list(itertools.islice(root.search(other_cls), 3))
            except Exception:
                pass

        m_again = f.match(pat)

        if (m_again is None) != (m_fst is None) or (m_fst is not None and tag_shape(m_again, root) != tag_shape(m_fst, root)):
            raise Violation('C17.stateful', f'{desc}: a second identical match call gives a different result after unrelated calls', f'state:{site}')

        if m_fst is not None and m_again is not None:
            for key, v in m_fst.tags.items():
                w = m_again.tags.get(key)

                if isinstance(v, list) and v is w:
                    raise Violation('C17.shared_tags', f'{desc}: tag {key!r} container is shared between two match results', f'shared:{site}')

        # search == filtered walk
        sopt = case['sopt']
        kw = {}

        if sopt & 1:
            kw['back'] = True
        if sopt & 2:
            kw['recurse'] = False
        if sopt & 4 and isinstance(root.a, ast.Module):
            kw['scope'] = True

        try:
            got = [id(mm.matched.a) for mm in root.search(pat, **kw)]
            want = [id(g.a) for g in root.walk(True, **kw) if g.match(pat) is not None]
        except Exception as exc:
            raise Violation('C17.search_raise', f'{desc}: search / walk raised {exc!r}', f'search_raise:{site}') from None

        ctx.count('searches')

        if got != want:
            raise Violation('C17.search', f'{desc}: search(**{kw}) yields {len(got)} nodes, filtered walk {len(want)}; first difference at index '
                            f'{next((j for j, (x, y) in enumerate(zip(got, want)) if x != y), min(len(got), len(want)))}', f'search:{pkind}:{"+".join(sorted(kw)) or "default"}')

        # nested=False == walk with send(False) after each match
        try:
            got_nn = [id(mm.matched.a) for mm in root.search(pat, nested=False)]
            want_nn = []
            gen_ = root.walk(True)

            for g in gen_:
                if g.match(pat) is not None:
                    want_nn.append(id(g.a))
                    gen_.send(False)
        except Exception as exc:
            raise Violation('C17.search_raise', f'{desc}: search(nested=False) raised {exc!r}', f'search_raise_nn:{site}') from None

        if got_nn != want_nn:
            raise Violation('C17.search', f'{desc}: search(nested=False) yields {len(got_nn)} nodes, walk with send(False) after each match {len(want_nn)}', f'search_nn:{pkind}')

        if pkind != 'plain' and any(isinstance(c, ast.AST) for c in ast.iter_child_nodes(tnode)):
            ctx.mark_nontrivial((src, nsel, case['comb'] + k, tuple(case['wild'])), {'pattern_kind': pkind, 'target': ast.unparse(pnode)[:120], 'search_opts': kw} if nsel % 29 == 0 else None)


LEAFINST_PROGRAMS = (
    'a = b\ndel c, d[0]\ne.f += g\nfor h in i: pass\nwith j as k: pass\n[l, *m] = n',
    'r = a + b - c * d | e\nr = not a and -b or ~c\nr = a < b == c is d not in e\nr += 1\nr -= 2\nwhile a:\n    break\nelse:\n    continue',
)

_LEAF_CLASSES = (ast.Load, ast.Store, ast.Del, ast.Add, ast.Sub, ast.BitOr, ast.And, ast.Or, ast.Not, ast.USub, ast.Eq, ast.Is, ast.NotIn, ast.Pass, ast.Break, ast.Continue)


def run_leafinst(case, ctx):
    from fst.match import M, MAND, MNOT, MOR

    src = case['src']

    try:
        root = FST(src, 'exec')
    except Exception as exc:
        raise Skip(f'build_failed:{type(exc).__name__}') from None

    for cls in _LEAF_CLASSES:
        for wi, wrap in enumerate((lambda p: p, lambda p: M(t=p), lambda p: MOR(p, ast.Ellipsis), lambda p: MAND(p, MNOT(ast.Name)), lambda p: MOR(ast.Lambda, M(u=p)))):
            for kw in ({}, {'ctx': True}, {'ctx': False, 'back': True}):
                pat = wrap(cls())
                desc = f'pattern #{wi} around {cls.__name__}() instance, options {kw} on {src[:80]!r}'
                wkw = {k: v for k, v in kw.items() if k != 'ctx'}
                mkw = {k: v for k, v in kw.items() if k == 'ctx'}

                try:
                    got = [id(mm.matched.a) for mm in root.search(pat, **kw)]
                    want = [id(g.a) for g in root.walk(True, **wkw) if g.match(pat, **mkw) is not None]
                except Exception as exc:
                    raise Violation('C17.search_raise', f'{desc}: search / walk raised {exc!r}', f'search_raise:leafinst:{cls.__name__}') from None

                ctx.count('searches_leafinst')

                if got != want:
                    raise Violation('C17.search', f'{desc}: search yields {len(got)} nodes, walk filtered by match {len(want)}', f'search:leafinst:{cls.__name__}:{wi}:{"+".join(sorted(kw)) or "default"}')

                if want:
                    ctx.mark_nontrivial((src, cls.__name__, wi, tuple(sorted(kw))), {'pattern_kind': f'leafinst#{wi}', 'target': cls.__name__, 'search_opts': kw, 'hits': len(want)} if wi == 0 and not kw else None)


def execute(case, ctx):
    if 'leafinst' in case:
        run_leafinst(case, ctx)
    elif 'grid' in case or 'backref' in case:
        run_grid(case, ctx)
    else:
        run_struct(case, ctx)
