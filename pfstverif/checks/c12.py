"""C12 - a failed edit leaves the target tree untouched and still editable."""

from __future__ import annotations

import ast

from .. import editmachine as em
from .. import gen
from ..editmachine import FST
from ..oracle import T, first_diff
from ..runner import Skip, Violation, fst_site
from . import c01

ID = 'C12'
LEVEL = 'fault_enumeration'
TECHNIQUE = 'stateful property-based testing with generated invalid requests (fault sequences); snapshot-equality oracle'
RULE = ('Edit sequences as in C01 in which ~45 % of the steps carry a deliberately invalid request (unparsable code, wrong-category '
        'code with coerce on/off, unknown option / bad option value, bad indices, consumed FST, non-root FST, node of another '
        'tree, the tree itself or an ancestor as code) mixed with valid edits; every step that raises (deliberate or natural: '
        'ordering rules, norm refusals, out-of-range) is a test event: (src, ast.dump with positions) of the target root must '
        'equal the snapshot taken before the call, parent/field/root links of all nodes must be intact, the modification '
        'registry must hold no entry, and a following known-good edit (append `pass`, then delete it) must succeed with '
        'the C01 invariant. Enumerated next to the drawn sequences: every node x {remove, delattr, cut, put(None), wrong-category '
        'replace}, every container x every position x all donors, and raw mode: every node x every unparsable text x '
        '{replace(raw=True), replace(raw="auto"), put_src(action="reparse") over the node location}. Non-trivial = the exception was raised below the argument-validation layer (innermost fst frame is '
        'not a validation/parse function), i.e. on a path that could have half-applied; distinct by (case, step index).')
ASSUMPTIONS = [
    'only naturally reachable raise sites are exercised (no exception injection into pfst internals)',
    'an FST passed as code may be consumed/destroyed (documented) and is not examined',
    'fst.fst_core._MODIFYING is read directly (named in the property anchors); if absent that sub-oracle is skipped',
] + c01.ASSUMPTIONS[:1]

VALIDATION_SITES = ('_validate_put', 'fixup_slice_indices', 'fixup_one_index', 'check_options', 'parse', '_ast_parse', 'code_as',
                    '_code_as', 'filter_options', '_coerce', 'get_option', 'fixup_field_body', '_fixup')


def params(tier):
    if tier == 'quick':
        return {'examples': 1500, 'wall': 170, 'case_timeout': 20, 'max_steps': 8}

    return {'examples': 30000, 'wall': 600, 'case_timeout': 30, 'max_steps': 20}


def floors(tier):
    return {'distinct_nontrivial': 50 if tier == 'quick' else 1000, 'raises_checked': 500 if tier == 'quick' else 10000}


def strategy(tier):
    return em.case_strategy(max_steps=params(tier)['max_steps'], max_lines=40, fault_rate=4)


ENUM_OPS = ('remove', 'delattr', 'cut', 'put_none', 'replace_wrong')


def enumerate_cases(tier, shard, nshards, seed):
    """Single-edit fault enumeration: on every saturated / template program, every node target x {remove, delattr, cut, put(None), replace by
    code of a wrong category}. Most of these are refusals (required fields, ordering rules, norm), each a raise site to check."""

    progs = gen.saturated_programs() + gen.SYN_PROGRAMS
    k = 0

    for pi, src in enumerate(progs):
        try:
            n = len(em.node_targets(ast.parse(src)))
        except SyntaxError:
            continue

        for ti in range(n):
            for op in ENUM_OPS:
                k += 1

                if k % nshards != shard:
                    continue

                if tier == 'quick' and (k * 2654435761 + seed * 40503) % 3 == 0 and False:
                    continue

                step = {'tsel': ti, 'form': 'src', 'dsel': 7 * (ti + pi), 'opts': {}, 'anycat': False, 'layout': []}

                if op == 'put_none':
                    step.update(op='put', fault='put_none')
                elif op == 'replace_wrong':
                    step.update(op='replace', fault='wrong_cat', fsel=ti + pi)
                else:
                    step['op'] = op

                yield {'src': src, 'steps': [step], 'enumerated': True}

    # raw mode: every node of the template / trivia programs x every unparsable source x raw in (True, 'auto'), and the same text put by location
    # with put_src(action='reparse') - the put is spliced into the source before the reparse decides
    for pi, src in enumerate(gen.SYN_PROGRAMS + gen.TRIVIA_PROGRAMS):
        try:
            n = len(em.node_targets(ast.parse(src)))
        except SyntaxError:
            continue

        for ti in range(n):
            for bi in range(len(em.BAD_SRCS)):
                for how in ('raw', 'auto', 'put_src'):
                    k += 1

                    if k % nshards != shard or (tier == 'quick' and (k * 2654435761 + seed * 40503) % 3):
                        continue

                    step = {'tsel': ti, 'form': 'src', 'dsel': 0, 'opts': {}, 'anycat': False, 'layout': [], 'fault': 'bad_src', 'fsel': bi}

                    if how == 'put_src':
                        step['op'] = 'put_src'
                    else:
                        step.update(op='replace', opts={'raw': True if how == 'raw' else 'auto'})

                    yield {'src': src, 'steps': [step], 'enumerated': True}

    # slice level: every container of the container templates and of the def / class saturated programs x insertion / replacement at every position x
    # ALL donors of the container kind (many violate ordering rules: '**kw' before arguments, positional after keyword, ...), default options
    from . import c03

    sat = tuple(p for p in gen.saturated_programs() if p.lstrip('@d12(x, k=v)\n').startswith(('def ', 'async def ', 'class ')))[::7]

    yield from em.slice_edit_grid(c03.GRID_TEMPLATES + sat, tier, shard, nshards, seed, optsets=({},), all_donors=True,
                                  only_ops=('insert', 'put_slice', 'delslice', 'prepend', 'prextend', 'append', 'extend', 'setslice'))


def check_links(root, clause, site):
    """Parent / field / root links per docs d03 for every node of the live AST."""

    a = root.a

    if a.f is not root or root.parent is not None:
        raise Violation(clause, 'root link broken', f'links:{site}')

    for node, parent, field, idx in em.iter_nodes(a):
        f = getattr(node, 'f', None)

        if f is None or f.a is not node:
            raise Violation(clause, f'node {node.__class__.__name__} at {parent.__class__.__name__}.{field}[{idx}] has no / wrong .f', f'links:{site}')

        if f.parent is not parent.f or f.pfield.name != field or f.pfield.idx != idx:
            raise Violation(clause, f'node {node.__class__.__name__} has wrong parent/pfield: {f.parent!r}.{f.pfield} vs {parent.__class__.__name__}.{field}[{idx}]',
                            f'links:{site}')


def modifying_clear(root):
    try:
        from fst import fst_core
        reg = fst_core._MODIFYING
    except Exception:
        return None

    return not reg  # single-threaded check process: must be empty when no edit is in flight


def apply_put_src(root, step):
    """`put_src(text, *location of a node, action='reparse')` with an unparsable text."""

    targets = em.node_targets(root.a)

    if not targets:
        raise em.StepSkipped('no_targets')

    node, parent, field, idx = em.pick(targets, step['tsel'])
    loc = node.f.loc

    if loc is None:
        raise em.StepSkipped('no_location')

    ap = em.Applied()
    ap.op = 'put_src'
    ap.fault = step.get('fault')
    ap.parent_cls, ap.field, ap.idx, ap.target_cls, ap.kind, ap.form, ap.opts = parent.__class__.__name__, field, idx, node.__class__.__name__, 'node', 'src', {}
    ap.code_src = em.pick(em.BAD_SRCS, step['fsel'])
    ap.desc = f'FAULT:bad_src put_src({ap.code_src!r}, {tuple(loc)}, action="reparse") over {ap.parent_cls}.{field}[{idx}] {ap.target_cls}'

    try:
        root.put_src(ap.code_src, *loc, 'reparse')
    except Exception as exc:
        ap.raised = True
        ap.exc = exc

    return ap


def execute(case, ctx):
    if (why := c01.excluded(case['src'])) and not case.get('no_exclude'):
        raise Skip(f'excluded_known_finding:{why}')

    try:
        root = FST(case['src'], 'exec')
    except Exception as exc:
        raise Skip(f'build_failed:{type(exc).__name__}') from None

    for i, step in enumerate(case['steps']):
        src0 = root.src
        t0 = T(root.a)

        try:
            ap = apply_put_src(root, step) if step['op'] == 'put_src' else em.apply_step(root, step, c01.BASE_OPTS)
        except em.StepSkipped as s:
            ctx.count(f'step_skipped:{s.reason}')

            continue

        if not ap.raised:
            ctx.count('steps_ok')

            if ap.fault:
                ctx.count(f'fault_accepted:{ap.fault}')

            try:
                c01.check_invariant(root, ap, 'C12.after_ok_step')
            except Violation:
                ctx.count('c01_violation_on_ok_step(reported by C01)')

                return

            continue

        exc = ap.exc
        site = fst_site(exc)
        ctx.count('raises_checked')
        ctx.count(f'exc:{type(exc).__name__}')
        ctx.count(f'raise_site:{site}')

        if ap.fault:
            ctx.count(f'fault_raised:{ap.fault}')

        sig = f'{ap.op}:{ap.parent_cls}.{ap.field}:{type(exc).__name__}@{site}'

        if root.src != src0:
            raise Violation('C12.src_changed', f'{ap.desc} raised {exc!r} but source changed:\n--- before ---\n{src0[:800]}\n--- after ---\n{root.src[:800]}', sig)

        t1 = T(root.a)

        if t1 != t0:
            raise Violation('C12.tree_changed', f'{ap.desc} raised {exc!r} but tree changed: {first_diff(t1, t0)}\n--- src ---\n{src0[:800]}', sig)

        check_links(root, 'C12.links', sig)

        if modifying_clear(root) is False:
            from fst import fst_core

            fst_core._MODIFYING.clear()  # do not poison the following cases of this process

            raise Violation('C12.lock_left', f'{ap.desc} raised {exc!r} and left a modification registry entry', sig)

        if src0.rstrip(' \t\n').endswith('\\'):
            ctx.count('state_ends_with_continuation(C01-dangling-continuation-eof family, follow-up edit not attempted)')  # anything appended would be joined to the dangling line

            continue

        # the next valid edit succeeds and the tree still satisfies C01

        try:
            root.body.append('pass')
        except Exception as exc2:
            raise Violation('C12.not_editable', f'after {ap.desc} raised {exc!r} a plain append raised {exc2!r}\n--- src ---\n{src0[:800]}', sig) from None

        c01.check_invariant(root, ap, 'C12.c01_after_failed_edit')

        try:
            del root.body[-1]
        except Exception as exc2:
            raise Violation('C12.not_editable', f'after {ap.desc} raised {exc!r} deleting the appended pass raised {exc2!r}', sig) from None

        if root.src.rstrip(' \t\n').endswith('\\'):
            ctx.count('source_ends_with_continuation(C01-dangling-continuation-eof family, not re-reported)')
        else:
            c01.check_invariant(root, ap, 'C12.c01_after_failed_edit')

        fn = site.split(':')[-1]

        if (not any(v in fn for v in VALIDATION_SITES) and not isinstance(exc, SyntaxError)) or ap.op == 'put_src' or ap.opts.get('raw'):
            ctx.mark_nontrivial([case['src'], case['steps'][:i + 1]],
                                {'src': case['src'][:300], 'failing_step': ap.desc, 'exception': repr(exc)[:200], 'site': site})
