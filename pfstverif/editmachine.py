"""Shared structured-edit machine used by C01, C02, C04, C12 (and as the per-thread script engine of C20).

A *case* is plain data: `{'src': str, 'steps': [step, ...]}`. A *step* is plain data describing one structured edit;
targets are selected by integers that are resolved modulo the number of candidates in the *current* tree, so cases are
stable under shrinking. Every random choice is a Hypothesis draw made when the case is generated.
"""

from __future__ import annotations

import ast
from ast import AST

from hypothesis import strategies as st

from . import gen

import fst  # noqa: E402  (path set up by pfstverif/__init__)
from fst import FST

# ----------------------------------------------------------------------------------------------------------------------
# slot categories (from the Python grammar, not from pfst)

OP_BASES = (ast.boolop, ast.operator, ast.unaryop, ast.cmpop)


def category(a: AST) -> str:
    if isinstance(a, ast.stmt):
        return 'stmt'
    if isinstance(a, ast.expr):
        ctx = getattr(a, 'ctx', None)

        return 'expr_store' if isinstance(ctx, (ast.Store, ast.Del)) else 'expr'
    if isinstance(a, ast.pattern):
        return 'pattern'
    if isinstance(a, ast.type_param):
        return 'type_param'
    if isinstance(a, ast.boolop):
        return 'boolop'
    if isinstance(a, ast.operator):
        return 'operator'
    if isinstance(a, ast.unaryop):
        return 'unaryop'
    if isinstance(a, ast.cmpop):
        return 'cmpop'

    return a.__class__.__name__  # arg, arguments, keyword, alias, withitem, ExceptHandler, match_case, comprehension, ...


STORE_DONORS = ('x', 'a.b', 'a[b]', 'a, b', '(a, b)', '[a, *b]', '*a', 'a[b:c]', 'ñ', '(x)', 'a.b.c', '(a,\n b)')

FST_MODE = {'stmt': 'stmts', 'expr': 'expr_all', 'expr_store': 'expr_all', 'pattern': 'pattern', 'type_param': 'type_param',
            'boolop': 'boolop', 'operator': 'operator', 'unaryop': 'unaryop', 'cmpop': 'cmpop', 'arg': 'arg',
            'arguments': 'arguments', 'keyword': 'keyword', 'alias': 'alias', 'withitem': 'withitem',
            'ExceptHandler': 'ExceptHandler', 'match_case': 'match_case', 'comprehension': 'comprehension'}

# slice donors by (parent class name, field): source of a *sequence* appropriate for that container
SLICE_DONORS = {
    'stmts': ('pass', 'x = 1\ny = 2', 'if a:\n    b\nc', '# c\nx\n\n\ny  # t', 'def f(): pass\nclass C: pass', 'a; b', ''),
    'exprs': ('a', 'a, b', 'a, b,', '(a, b)', '[a, b]', 'a,\nb', '*a, b', 'x, (y, z)', ''),
    'handlers': ('except A: pass', 'except A: pass\nexcept B as e:\n    x', ''),
    'cases': ('case 1: pass', 'case 1: pass\ncase [a, *b]:\n    x', ''),
    'decorator_list': ('@a', '@a\n@b(c)', ''),
    'Assign.targets': ('a =', 'a = b =', 'a, b = c.d ='),
    'generators': ('for a in b', 'for a in b for c in d if e'),
    'ifs': ('if a', 'if a if b', ''),
    'Import.names': ('a', 'a, b as c', 'a.b as c'),
    'ImportFrom.names': ('a', 'a, b as c'),
    'Global.names': ('a', 'a, b'),
    'items': ('a', 'a as b, c', 'a as b'),
    'keywords': ('a=b', 'a=b, **c', ''),
    'Call.args': ('a', 'a, *b', ''),
    'type_params': ('T', 'T, *U, **V', ''),
    'MatchSequence.patterns': ('a, b', '[a, *b]', 'a,', ''),
    'MatchOr.patterns': ('a | b', '1 | 2'),
    'MatchClass.patterns': ('a, b', '1,'),
    'Dict._all': ('{a: b}', '{a: b, **c}', 'a: b, c: d', '{}'),
    'MatchMapping._all': ('{1: a}', '{1: a, 2: b}', '{}'),
    'BoolOp.values': ('a and b', 'a or b', 'x', 'lambda: x', 'not a', 'p if q else r', '*s', '(y := 1)', 'a < b'),
    'Compare._all': ('a < b', 'x', 'a is not b == c', 'lambda: x', 'not a', 'a or b', '*s', 'p if q else r'),
    'arguments._all': ('a', 'a, b=1', '*, k', '', '**kw', 'x, /', '*v', 'p=1', 'q, /, r'),
    'Call._args': ('a', 'a, k=v', 'k=v, **kw', '', '*s', '**d'),
    'ClassDef._bases': ('A', 'A, m=M', '', '*bs', '**kw'),
    'Delete.targets': ('a', 'a, b.c', 'a[0], b'),
}


def slice_kind(parent: AST, field: str) -> str | None:
    cls = parent.__class__.__name__
    key = f'{cls}.{field}'

    if key in SLICE_DONORS:
        return key

    if field in ('body', 'orelse', 'finalbody', '_body'):
        if field in ('body', '_body') and isinstance(parent, (ast.Lambda, ast.IfExp, ast.Expression)):
            return None

        return 'stmts'

    if field in ('handlers', 'cases', 'decorator_list', 'generators', 'ifs', 'items', 'keywords', 'type_params'):
        return field

    if field in ('elts',) or key in ('ClassDef.bases', 'Delete.targets'):
        return 'exprs'

    if field == 'names' and cls == 'Nonlocal':
        return 'Global.names'

    return None


VIRTUAL_FIELDS = {
    'Dict': ('_all',), 'MatchMapping': ('_all',), 'Compare': ('_all',), 'arguments': ('_all',), 'Call': ('_args',),
    'ClassDef': ('_bases', '_body'), 'FunctionDef': ('_body',), 'AsyncFunctionDef': ('_body',), 'Module': ('_body',),
}

# ----------------------------------------------------------------------------------------------------------------------
# target enumeration from the live AST (deterministic order)


def iter_nodes(root_ast: AST):
    """Yield (node, parent, field, idx) for every node below root in deterministic DFS field order."""

    stack = [(root_ast, None, None, None)]

    while stack:
        node, parent, field, idx = stack.pop()

        if parent is not None:
            yield node, parent, field, idx

        kids = []

        for f in node._fields:
            v = getattr(node, f, None)

            if isinstance(v, AST):
                kids.append((v, node, f, None))
            elif isinstance(v, list):
                for i, e in enumerate(v):
                    if isinstance(e, AST):
                        kids.append((e, node, f, i))

        stack.extend(reversed(kids))


def node_targets(root_ast: AST):
    return [(n, p, f, i) for n, p, f, i in iter_nodes(root_ast)
            if not isinstance(n, ast.expr_context) and not isinstance(p, (ast.JoinedStr, ast.FormattedValue))]


def container_targets(root_ast: AST):
    """(parent, field, length) for every list-like container incl. virtual fields and empty optional blocks."""

    out = []

    for node in [root_ast] + [n for n, _, _, _ in iter_nodes(root_ast)]:
        if isinstance(node, (ast.JoinedStr, ast.FormattedValue, ast.expr_context)):
            continue

        for f in node._fields:
            v = getattr(node, f, None)

            if isinstance(v, list) and slice_kind(node, f):
                out.append((node, f, len(v)))

        for vf in VIRTUAL_FIELDS.get(node.__class__.__name__, ()):
            if slice_kind(node, vf):
                out.append((node, vf, None))

    return out


# ----------------------------------------------------------------------------------------------------------------------
# strategies

TRIVIA_VALUES = (True, False, 'block', 'all', 'none', 'all+', 'block-1', 'all-', 'block+2', ('block', 'line'), ('all', 'all'),
                 (False, False), ('none', 'block'), ('block+1', 'all+'), (True, 'block-'), ('all-2', 'line'), (True, True), (False, 'all'))


@st.composite
def options_strategy(draw, rich: bool = True):
    opts = {}

    if not rich or not draw(st.integers(0, 2)):
        return opts

    picks = draw(st.lists(st.integers(0, 9), max_size=3))

    for p in picks:
        if p == 0:
            opts['trivia'] = TRIVIA_VALUES[draw(st.integers(0, len(TRIVIA_VALUES) - 1))]
        elif p == 1:
            opts['pep8space'] = draw(st.sampled_from([True, False, 1]))
        elif p == 2:
            opts['elif_'] = draw(st.booleans())
        elif p == 3:
            opts['docstr'] = draw(st.sampled_from([True, False, 'strict']))
        elif p == 4:
            opts['pars'] = draw(st.sampled_from(['auto', True]))
        elif p == 5:
            opts['pars_walrus'] = draw(st.sampled_from([True, False, None]))
        elif p == 6:
            opts['pars_arglike'] = draw(st.sampled_from([True, False, None]))
        elif p == 7:
            opts['coerce'] = draw(st.booleans())
        elif p == 8:
            opts['set_norm'] = draw(st.sampled_from(['star', 'call']))
        elif p == 9:
            opts['op_side'] = draw(st.sampled_from(['left', 'right']))

    return opts


NODE_OPS = ('replace',) * 10 + ('remove',) * 4 + ('cut',) * 2 + ('put',) * 3 + ('setitem',) * 2 + ('delitem',) + \
    ('setattr',) + ('delattr',) + ('cut_paste',) * 2 + ('put_line_comment',) + ('put_docstr',) + ('put_prim',) * 2

# primitive fields by node class: (field, values); None = delete where the field is optional
PRIM_FIELDS = {
    'Constant': (('value', (7, 2.5, 1j, 'str', b'b', True, None, 0, 'q"\'q', 10 ** 20)),),
    'Name': (('id', ('nm_x', 'ñm')),), 'Attribute': (('attr', ('at_x', 'ät')),), 'arg': (('arg', ('ar_x',)),), 'keyword': (('arg', ('kw_x',)),),
    'alias': (('name', ('al_x', 'al.y')), ('asname', ('as_x', None))), 'FunctionDef': (('name', ('fn_x',)),), 'AsyncFunctionDef': (('name', ('fn_x',)),),
    'ClassDef': (('name', ('Cl_x',)),), 'ExceptHandler': (('name', ('ex_x', None)),), 'MatchAs': (('name', ('ma_x',)),), 'MatchStar': (('name', ('ms_x', None)),),
    'ImportFrom': (('module', ('mo.du', 'md')), ('level', (0, 1, 2))), 'TypeVar': (('name', ('Tv_x',)),), 'MatchMapping': (('rest', ('re_x', None)),),
    'MatchSingleton': (('value', (True, False, None)),),
}
PAR_OPS = ('par', 'par_force', 'unpar', 'unpar_node')
SLICE_OPS = ('put_slice',) * 5 + ('insert',) * 2 + ('append', 'extend', 'prepend', 'prextend', 'setslice', 'setslice', 'delslice',
                                                     'put_slice_one', 'get_slice_cut', 'view_replace', 'view_remove', 'setfield')


@st.composite
def step_strategy(draw, rich_opts: bool = True):
    step = {'tsel': draw(st.integers(0, 1 << 30)), 'form': draw(st.sampled_from(['src', 'src', 'ast', 'fst'])),
            'dsel': draw(st.integers(0, 1 << 30)), 'opts': draw(options_strategy(rich_opts)), 'junk': draw(st.integers(0, 27))}

    if draw(st.integers(0, 9)) < 6:
        step['op'] = draw(st.sampled_from(NODE_OPS))
        step['anycat'] = draw(st.integers(0, 11)) == 0  # rarely: donor from a random category (must be refused or valid)
        step['layout'] = draw(gen.layout_draws) if draw(st.integers(0, 3)) == 0 else []

        if step['op'] == 'cut_paste':
            step['tsel2'] = draw(st.integers(0, 1 << 30))
        elif step['op'] in ('put_docstr', 'put_line_comment'):
            step['text'] = draw(st.sampled_from(['doc', 'two\nlines', 'q " \' q', 'back\\slash', 'ünï', '', 'tail  ', 'a\n    indented\n  b']))

            if step['op'] == 'put_line_comment':
                step['lc_field'] = draw(st.sampled_from([None, None, 'body', 'orelse', 'finalbody']))
    else:
        step['op'] = draw(st.sampled_from(SLICE_OPS))
        step['start'] = draw(st.integers(-7, 7))
        step['stop'] = draw(st.integers(-7, 7))
        step['one'] = draw(st.sampled_from([False, False, False, True, None]))

    return step


FAULTS = ('bad_src', 'bad_src', 'bad_opt_name', 'bad_opt_value', 'consumed_fst', 'nonroot_fst', 'ouroboros', 'wrong_cat', 'wrong_cat',
          'other_tree_child', 'bad_index', 'coerce_off')
BAD_SRCS = ('+++', 'if', '(', 'a b', ')', 'x = ', 'def', '1 +', 'a, , b', 'lambda', '\n  x\n y', 'except', '@', 'a = = b', '$', '\'', 'f"{"')
BAD_OPTS = ({'bogus': 1}, {'trivia': 'nope'}, {'pars': 5}, {'Norm': True}, {'pep8space': 3}, {'trivia': ('block', 'line', 'x')},
            {'op_side': 'middle'}, {'set_norm': 'x'}, {'to': 1}, {'docstr': 'maybe'}, {'raw': 'yes'}, {'args_as': 'zzz'}, {'elif_': None, 'zzz': 0})


@st.composite
def case_strategy(draw, max_steps: int = 6, max_lines: int = 50, rich_opts: bool = True, fault_rate: int = 0):
    """`fault_rate` in tenths: share of steps that carry a deliberately invalid request (C12)."""

    src = draw(gen.program(max_lines))
    steps = draw(st.lists(step_strategy(rich_opts), min_size=1, max_size=max_steps))

    if fault_rate:
        for step in steps:
            if draw(st.integers(0, 9)) < fault_rate:
                step['fault'] = draw(st.sampled_from(FAULTS))
                step['fsel'] = draw(st.integers(0, 1000))

    return {'src': src, 'steps': steps}


# ----------------------------------------------------------------------------------------------------------------------
# code construction


class StepSkipped(Exception):
    def __init__(self, reason: str):
        self.reason = reason


def pick(seq, sel: int):
    return seq[sel % len(seq)]


def donor_pool(cat: str) -> tuple:
    """The base (non-harvested) donor pool of a category, for enumerations."""

    if cat == 'stmt':
        return gen.STMT_DONORS
    if cat == 'expr':
        return gen.EXPR_DONORS
    if cat == 'expr_store':
        return STORE_DONORS

    return gen.OTHER_DONORS.get(cat, ())


def single_edit_grid(programs, tier, shard, nshards, seed, n_expr=6, thin=1, remove_optsets=({},), cut=False, line_comments=False):
    """Deterministic grid of one-step cases: every node target of every program x {replace by each of a few donors of its category (plain,
    parenthesised, multi-line, compound) in src / fst form with pars auto / True, remove}. Yields case dicts for checks built on apply_step()."""

    import ast as _ast

    want_expr = ('x', '(a)', '(a,\n b)', 'a + b', 'f(a,\n  b)', 'a if b else c', 'lambda: x', '*a', 'x := 1', '[i for i in j]')[:n_expr]
    want_store = ('x', '(x)', 'a.b', '(a, b)', 'a[b]')
    k = 0

    for pi, src in enumerate(programs):
        try:
            targets = node_targets(_ast.parse(src))
        except SyntaxError:
            continue

        for ti, (node, parent, field, idx) in enumerate(targets):
            cat = category(node)
            pool = donor_pool(cat)
            want = want_expr if cat == 'expr' else want_store if cat == 'expr_store' else pool[:3]
            picks = [pool.index(w) for w in want if w in pool]
            variants = [('remove', None, 'src', o) for o in remove_optsets] + ([('cut', None, 'src', o) for o in remove_optsets] if cut else [])

            for j in picks:
                for form, pars in (('src', 'auto'), ('fst', True), ('fst', 'auto'), ('src', True)):
                    variants.append(('replace', j, form, pars))

            if line_comments and isinstance(node, _ast.stmt):
                for lcf in (None, 'body', 'orelse', 'finalbody'):
                    if lcf is None or getattr(node, lcf, None):
                        for text in ('lc', 'a considerably longer line comment than before', ''):
                            k += 1

                            if k % nshards == shard and not (thin > 1 and (k * 2654435761 + seed * 40503) % thin):
                                yield {'src': src, 'grid': True,
                                       'steps': [{'tsel': ti, 'form': 'src', 'dsel': 0, 'opts': {}, 'op': 'put_line_comment', 'anycat': False, 'layout': [], 'text': text, 'lc_field': lcf}]}

            for pi_, (pf_, vals_) in enumerate(PRIM_FIELDS.get(node.__class__.__name__, ())):
                for vi_ in range(len(vals_)):
                    for how in (0, 1):
                        k += 1

                        if k % nshards == shard and not (thin > 1 and (k * 2654435761 + seed * 40503) % thin):
                            yield {'src': src, 'grid': True,
                                   'steps': [{'tsel': ti, 'form': 'src', 'dsel': 0, 'opts': {}, 'op': 'put_prim', 'anycat': False, 'layout': [], 'prim': [pi_, vi_, how]}]}

            for op, j, form, pars in variants:
                k += 1

                if k % nshards != shard:
                    continue

                if thin > 1 and (k * 2654435761 + seed * 40503) % thin:
                    continue

                opts = dict(pars) if isinstance(pars, dict) else {} if pars == 'auto' else {'pars': True}
                step = {'tsel': ti, 'form': form, 'dsel': 7 * (j or 0), 'opts': opts, 'op': op, 'anycat': False, 'layout': []}

                yield {'src': src, 'steps': [step], 'grid': True}


GRID_OPTSETS = ({}, {'docstr': False}, {'docstr': 'strict'}, {'trivia': 'all'}, {'trivia': ['none', 'none']}, {'trivia': 'block+1'}, {'trivia': ['all+', 'all+']},
                {'pep8space': False}, {'elif_': False}, {'pars': True}, {'trivia': False})


def slice_edit_grid(programs, tier, shard, nshards, seed, optsets=GRID_OPTSETS, thin=1, only_ops=None, all_donors=False):
    """Deterministic grid of one-step slice cases: every container of every program x {insert at each position, append, extend, prepend, put_slice and
    delete of each single element, delete of everything} x two donors x option sets."""

    import ast as _ast

    k = 0

    for src in programs:
        try:
            conts = container_targets(_ast.parse(src))
        except SyntaxError:
            continue

        for ci, (parent, field, n) in enumerate(conts):
            kind = slice_kind(parent, field)
            nd = len(SLICE_DONORS.get(kind, ()))

            if not nd:
                continue

            m = min(n if n is not None else 3, 4)
            ops = [('insert', i, i) for i in range(m + 1)] + [('insert', 7, 7), ('append', 0, 0), ('extend', 0, 0), ('prepend', 0, 0), ('prextend', 0, 0)]
            ops += [('put_slice', i, i + 1) for i in range(m)] + [('delslice', i, i + 1) for i in range(m)] + [('delslice', 0, 7), ('put_slice', 0, 7), ('view_replace', 0, 1),
                                                                                                               ('get_slice_cut', 0, 1), ('setslice', 1, 7)]

            for op, a, b in ops:
                if only_ops and op not in only_ops:
                    continue

                for ds in range(nd if all_donors else min(nd, 2)) if not op.startswith(('del', 'get_')) else (0,):
                    for oi, o in enumerate(optsets):
                        k += 1

                        if k % nshards != shard:
                            continue

                        if thin > 1 and (k * 2654435761 + seed * 40503) % thin:
                            continue

                        yield {'src': src, 'steps': [{'tsel': ci, 'form': 'src' if (k // 7) % 3 else 'fst', 'dsel': ds, 'opts': dict(o), 'op': op, 'start': a, 'stop': b, 'one': False}],
                               'grid': True}


def donor_source(cat: str, step: dict) -> str:
    dsel = step['dsel']

    if cat == 'stmt':
        pool = gen.STMT_DONORS + (gen.harvested_donors()[1] if dsel % 5 == 0 else ())
    elif cat == 'expr':
        pool = gen.EXPR_DONORS + (gen.harvested_donors()[0] if dsel % 3 == 0 else ())
    elif cat == 'expr_store':
        pool = STORE_DONORS
    elif cat in gen.OTHER_DONORS:
        pool = gen.OTHER_DONORS[cat]
    else:
        raise StepSkipped(f'no_donor_for:{cat}')

    code = pick(pool, dsel // 7)

    if step.get('layout') and cat in ('stmt',):
        code = gen.mutate_layout(code, step['layout'])

    return decorate(code, cat, step.get('junk', 0))


def decorate(code: str, cat: str, junk: int) -> str:
    """Surround donor source with whitespace / comment trivia that is not part of the node (junk 1..9; anything else: none). Only forms that
    keep the donor valid standalone source of its kind."""

    if not 1 <= junk <= 9 or not code or code.rstrip().endswith('\\') or '\f' in code:
        return code

    last = code.rsplit('\n', 1)[-1]
    can_comment = '#' not in last and "'" not in last and '"' not in last  # conservatively: no string / comment on the last line

    if cat == 'stmt':
        return {1: code + '\n ', 2: code + '\n    ', 3: '\n' + code, 4: code + '\n\n', 5: code + '  # tc' if can_comment else code, 6: '# lead\n' + code,
                7: code + '\n\t', 8: code + '\n# after', 9: '\n\n' + code + '\n \n'}[junk]

    if cat in ('expr', 'expr_store'):
        if code.lstrip().startswith(('yield', 'lambda')) or ':=' in code:
            return code

        return {1: '\n' + code + '\n ', 2: code + '  # tc' if can_comment else code, 3: ' ' + code + ' ', 4: code + '\n', 5: '\n ' + code, 6: code + ' ',
                7: '# lead\n' + code, 8: code + '\n# after', 9: code + '\n    '}[junk]

    return {1: code + '  # tc' if can_comment else code, 2: code + '\n', 3: code + ' ', 4: ' ' + code}.get(junk, code)


def make_code(code_src: str, cat: str, form: str):
    """Turn donor source into the requested code form. Source that pfst cannot build a donor from is skipped (that is
    C05's business, not an edit)."""

    if form == 'src':
        return code_src

    if form == 'ast':
        try:
            if cat == 'stmt':
                m = ast.parse(code_src)

                return m.body[0] if len(m.body) == 1 else m

            if cat in ('expr', 'expr_store'):
                if code_src.lstrip().startswith('*'):
                    return ast.parse(f'[\n{code_src}\n]').body[0].value.elts[0]

                return ast.parse(f'(\n{code_src}\n)', mode='eval').body

        except SyntaxError:
            raise StepSkipped('donor_ast_unparsable') from None

        try:
            return FST.parse_ast(code_src, FST_MODE[cat])  # documented pure-AST parse for non-standalone kinds
        except Exception:
            raise StepSkipped('donor_ast_unparsable') from None

    try:
        return FST(code_src, FST_MODE.get(cat, 'all'))
    except Exception:
        raise StepSkipped('donor_fst_unparsable') from None


def resolve_idx(v: int, n: int):
    """Map a drawn int in [-7, 7] to an index value incl. 'end' and out-of-range values."""

    if v == 7:
        return 'end'

    return v


class Applied:
    """What a step did, for the observers."""

    __slots__ = ('fault', 'op', 'kind', 'parent_cls', 'field', 'target_cls', 'cat', 'code_src', 'form', 'opts', 'raised', 'exc', 'desc',
                 'target_lines', 'target_path', 'idx', 'extent')

    def __init__(self):
        for s in self.__slots__:
            setattr(self, s, None)


def path_of(root_ast: AST, node: AST):
    for n, p, f, i in iter_nodes(root_ast):
        if n is node:
            path = [(f, i)]
            cur = p

            while cur is not root_ast:
                for n2, p2, f2, i2 in iter_nodes(root_ast):
                    if n2 is cur:
                        path.append((f2, i2))
                        cur = p2

                        break
                else:
                    return None

            return list(reversed(path))

    return None


def warm_caches(root: FST) -> None:
    """Read-only queries on every node (locations, bounding locations, parentheses, own source): fills the per-node caches so that an edit which
    forgets to flush one shows up in the NEXT edit or query."""

    for f in root.walk(True):
        try:
            f.loc
            f.bloc
            f.pars()
        except Exception:
            pass


def ancestor_two_step_grid(programs, tier, shard, nshards, seed, thin=1):
    """Two-step histories: (1) put a longer / shorter / no line comment on a statement, or replace / remove its last expression, then (2) remove, cut or
    replace by itself every enclosing statement - with all caches warm before each step. Yields em cases with two steps."""

    import ast as _ast

    k = 0

    for src in programs:
        try:
            tree = _ast.parse(src)
        except SyntaxError:
            continue

        targets = node_targets(tree)
        index = {id(n): i for i, (n, p, f, i_) in enumerate(targets)}
        parents = {}

        for n in _ast.walk(tree):
            for c in _ast.iter_child_nodes(n):
                parents[id(c)] = n

        for ti, (node, parent, field, idx) in enumerate(targets):
            if not isinstance(node, _ast.stmt):
                continue

            anc = []
            p = parents.get(id(node))

            while p is not None and not isinstance(p, _ast.Module):
                if isinstance(p, _ast.stmt) and id(p) in index:
                    anc.append(index[id(p)])

                p = parents.get(id(p))

            firsts = [{'op': 'put_line_comment', 'text': t, 'lc_field': None} for t in ('a considerably longer line comment than before', 'c', '')]
            firsts += [{'op': 'put_line_comment', 'text': 'header comment which is long', 'lc_field': lf} for lf in ('body', 'orelse', 'finalbody') if getattr(node, lf, None)]

            for first in firsts:
                for ai in anc + [ti]:
                    for op2 in ('remove', 'cut', 'cut_paste_self'):
                        k += 1

                        if k % nshards != shard or (thin > 1 and (k * 2654435761 + seed * 40503) % thin):
                            continue

                        base = {'form': 'src', 'dsel': 0, 'opts': {}, 'anycat': False, 'layout': [], 'warm': True}

                        yield {'src': src, 'grid': True, 'steps': [{**base, 'tsel': ti, **first}, {**base, 'tsel': ai, 'op': op2}]}


def apply_step(root: FST, step: dict, base_opts: dict) -> Applied:
    """Resolve and perform one step on `root`. Raises StepSkipped when the step is not applicable to the current tree
    (counted). pfst exceptions are caught and recorded in the returned `Applied` (raised=True, exc=...)."""

    if step.get('warm'):
        warm_caches(root)

    ap = Applied()
    op = ap.op = step['op']
    opts = {**base_opts, **{k: (tuple(v) if isinstance(v, list) else v) for k, v in step.get('opts', {}).items()}}
    fault = ap.fault = step.get('fault')

    if fault in ('bad_opt_name', 'bad_opt_value'):
        bad = pick(BAD_OPTS, step['fsel'])
        opts = {**opts, **bad}
    elif fault == 'coerce_off':
        opts = {**opts, 'coerce': False}
    ap.opts = opts
    ap.form = step['form']
    root_ast = root.a

    if op in NODE_OPS or op in PAR_OPS or op == 'cut_paste_self':
        targets = node_targets(root_ast)

        if not targets:
            raise StepSkipped('no_targets')

        node, parent, field, idx = pick(targets, step['tsel'])
        f = node.f
        ap.parent_cls = parent.__class__.__name__
        ap.field = field
        ap.idx = idx
        ap.target_cls = node.__class__.__name__
        ap.kind = 'node'
        loc = f.loc
        ap.extent = tuple(loc) if loc else None
        cat = ap.cat = category(node)

        if op in ('replace', 'put', 'setitem', 'setattr'):
            dcat = cat

            if step.get('anycat'):
                dcat = pick(('stmt', 'expr', 'expr_store', 'pattern', 'arg', 'keyword', 'alias', 'withitem', 'ExceptHandler',
                             'match_case', 'comprehension', 'type_param', 'operator', 'cmpop', 'arguments'), step['dsel'] // 3)

            if fault == 'wrong_cat':
                dcat = pick(tuple(c for c in ('stmt', 'expr', 'pattern', 'arg', 'keyword', 'alias', 'withitem', 'ExceptHandler',
                                              'match_case', 'comprehension', 'type_param', 'operator', 'cmpop', 'arguments', 'boolop')
                                  if c != cat and not (c == 'expr' and cat == 'expr_store')), step['fsel'])

            code_src = ap.code_src = donor_source(dcat, step) if fault != 'put_none' else '<None>'

            if fault == 'put_none':
                code = None
            elif fault == 'bad_src':
                code_src = ap.code_src = pick(BAD_SRCS, step['fsel'])
                code = code_src
                ap.form = 'src'
            else:
                code = make_code(code_src, dcat, 'fst' if fault in ('consumed_fst', 'nonroot_fst') else step['form'])

            if fault == 'consumed_fst':
                try:
                    FST('[x]', 'exec').body[0].value.elts[0].replace(code)  # consume it somewhere else first
                except Exception:
                    pass
            elif fault == 'nonroot_fst':
                kid = code.first_child()

                if kid is None:
                    raise StepSkipped('fault_nonroot_no_child')

                code = kid
            elif fault == 'ouroboros':
                code = f.parent if step['fsel'] % 2 and f.parent is not None else root
                ap.code_src = '<ancestor>'
            elif fault == 'other_tree_child':
                other = FST('if a:\n    b = [c, d]\nelse:\n    e', 'exec')
                code = pick([other.body[0], other.body[0].body[0], other.body[0].body[0].value, other.body[0].test], step['fsel'])
                ap.code_src = '<child of other tree>'

            if op == 'setitem' and idx is None:
                op = 'setattr'
            if op == 'setattr' and idx is not None:
                op = 'setitem'

            ap.op = op

        def call():
            if op == 'replace':
                f.replace(code, **opts)
            elif op == 'remove':
                f.remove(**opts)
            elif op == 'cut':
                f.cut(**opts)
            elif op == 'put':
                if idx is None:
                    parent.f.put(code, field=field, **opts)
                else:
                    parent.f.put(code, idx, field=field, **opts)
            elif op == 'setitem':
                with FST.options(**opts):
                    getattr(parent.f, field)[idx] = code
            elif op == 'delitem':
                with FST.options(**opts):
                    if idx is None:
                        delattr(parent.f, field)
                    else:
                        del getattr(parent.f, field)[idx]
            elif op == 'setattr':
                with FST.options(**opts):
                    setattr(parent.f, field, code)
            elif op == 'delattr':
                with FST.options(**opts):
                    if idx is None:
                        delattr(parent.f, field)
                    else:
                        del getattr(parent.f, field)[idx]
            elif op == 'cut_paste':
                node2, parent2, field2, idx2 = pick(targets, step['tsel2'])

                if node2 is node or category(node2) != cat:
                    raise StepSkipped('cut_paste_incompatible')

                # node2 must not be inside node
                cur = node2.f

                while cur is not None:
                    if cur is f:
                        raise StepSkipped('cut_paste_nested')

                    cur = cur.parent

                cur = f

                while cur is not None:
                    if cur is node2.f:
                        raise StepSkipped('cut_paste_nested')

                    cur = cur.parent

                piece = f.copy(**opts)
                node2.f.replace(piece, **opts)
            elif op == 'cut_paste_self':  # take the node out and put the piece back where it was
                if idx is None:
                    piece = f.copy(**opts)
                    f.replace(piece, **opts)
                else:
                    piece = f.cut(**opts)
                    parent.f.put_slice(piece, idx, idx, field, one=True, **opts) if isinstance(node, ast.stmt) else parent.f.insert(piece, idx, field, one=True, **opts)
            elif op == 'put_prim':
                spec = PRIM_FIELDS.get(node.__class__.__name__)

                if not spec:
                    raise StepSkipped('no_primitive_field')

                pi_, vi_, how_ = step['prim'] if 'prim' in step else (step['dsel'], step['dsel'] // 3, step['dsel'] % 2)
                pfield_, values = pick(spec, pi_)
                value = pick(values, vi_)
                ap.code_src = f'{pfield_}={value!r}'

                if how_:
                    f.put(value, field=pfield_, **opts)
                else:
                    with FST.options(**opts):
                        setattr(f, pfield_, value)
            elif op in PAR_OPS:  # parenthesization edits (not part of NODE_OPS: they do no parsability validation by design, used by C02 only)
                if op == 'par':
                    f.par()
                elif op == 'par_force':
                    f.par(force=True)
                elif op == 'unpar':
                    f.unpar()
                else:
                    f.unpar(node=True)
            elif op == 'put_line_comment':
                if not isinstance(node, ast.stmt):
                    raise StepSkipped('line_comment_non_stmt')

                text = step['text'].split('\n')[0].strip() or None
                lc_field = step.get('lc_field')

                if lc_field:
                    if not getattr(node, lc_field, None):
                        raise StepSkipped('line_comment_field_absent')

                    f.put_line_comment(text, lc_field)
                else:
                    f.put_line_comment(text)
            elif op == 'put_docstr':
                if not isinstance(node, (ast.FunctionDef, ast.AsyncFunctionDef, ast.ClassDef)):
                    tgt = root if isinstance(root_ast, ast.Module) else None

                    if tgt is None:
                        raise StepSkipped('docstr_non_def')
                else:
                    tgt = f

                tgt.put_docstr(step['text'] if step['dsel'] % 5 else None, **opts)
            else:
                raise StepSkipped(f'unknown_op:{op}')

    else:
        conts = container_targets(root_ast)

        if not conts:
            raise StepSkipped('no_containers')

        parent, field, n = pick(conts, step['tsel'])
        pf = parent.f
        ap.parent_cls = parent.__class__.__name__
        ap.field = field
        ap.kind = 'slice'
        kind = slice_kind(parent, field)
        ap.cat = kind
        start = resolve_idx(step['start'], n)
        stop = resolve_idx(step['stop'], n)
        ap.idx = (start, stop)
        loc = pf.loc
        ap.extent = tuple(loc) if loc else None
        code_src = ap.code_src = pick(SLICE_DONORS[kind], step['dsel'])
        form = step['form']
        one = step.get('one', False)

        if fault == 'bad_index':
            start = pick((99, -99, 'end', 5, 'x', None, 2.5), step['fsel'])
            stop = pick((-99, 0, 3, 'y', 99), step['fsel'] // 7)
            ap.idx = (start, stop)

        if fault == 'bad_src':
            code = code_src = ap.code_src = pick(BAD_SRCS, step['fsel'])
            ap.form = 'src'
        elif fault == 'ouroboros':
            code = root
            ap.code_src = '<root>'
        elif form == 'src' or op in ('delslice', 'get_slice_cut', 'view_remove'):
            code = code_src
        else:
            # node forms of slices: build through pfst's own documented slice parse modes is C05's business; here only
            # the common-sense containers are used as node donors
            if kind == 'stmts':
                code = ast.parse(code_src) if form == 'ast' else FST(code_src, 'exec')
            elif kind == 'exprs':
                try:
                    tup = ast.parse(f'(\n{code_src}\n)', mode='eval').body if code_src.strip() else ast.Tuple(elts=[], ctx=ast.Load())
                except SyntaxError:
                    raise StepSkipped('slice_donor_unparsable') from None

                if not isinstance(tup, (ast.Tuple, ast.List, ast.Set)):
                    tup = ast.Tuple(elts=[tup], ctx=ast.Load())

                code = tup if form == 'ast' else FST(tup)
            else:
                code = code_src
                ap.form = 'src'

        def call():
            view = getattr(pf, field)

            if op == 'put_slice':
                pf.put_slice(code, start, stop, field, one=one, **opts)
            elif op == 'put_slice_one':
                pf.put(code, start, stop, field, one=one, **opts)
            elif op == 'insert':
                pf.insert(code, start, field=field, one=bool(one), **opts)
            elif op == 'append':
                pf.append(code, field, **opts)
            elif op == 'extend':
                pf.extend(code, field, **opts)
            elif op == 'prepend':
                pf.prepend(code, field, **opts)
            elif op == 'prextend':
                pf.prextend(code, field, **opts)
            elif op == 'setslice':
                with FST.options(**opts):
                    view[(None if start == 'end' else start):(None if stop == 'end' else stop)] = code
            elif op == 'delslice':
                with FST.options(**opts):
                    del view[(None if start == 'end' else start):(None if stop == 'end' else stop)]
            elif op == 'get_slice_cut':
                pf.get_slice(start, stop, field, cut=True, **opts)
            elif op == 'view_replace':
                view[(None if start == 'end' else start):(None if stop == 'end' else stop)].replace(code, one=bool(one), **opts)
            elif op == 'view_remove':
                view[(None if start == 'end' else start):(None if stop == 'end' else stop)].remove(**opts)
            elif op == 'setfield':
                with FST.options(**opts):
                    setattr(pf, field, code)
            else:
                raise StepSkipped(f'unknown_op:{op}')

    ap.desc = f'{"FAULT:" + fault + " " if fault else ""}{ap.op} {ap.parent_cls}.{ap.field}[{ap.idx}] {ap.target_cls or ""} <- {ap.form}:{(ap.code_src or "")[:60]!r} {step.get("opts") or ""}'

    try:
        call()
    except StepSkipped:
        raise
    except Exception as exc:
        ap.raised = True
        ap.exc = exc

    return ap
