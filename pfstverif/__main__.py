import sys

from .runner import main

sys.exit(main())
