"""Program sources (G-real, G-snip, G-syn-lite), layout mutator L, donor pools. Everything is deterministic given the
indices drawn by Hypothesis; no RNG, clock or hash-order dependence in here."""

from __future__ import annotations

import ast
import functools
import importlib.util
import io
import keyword
import os
import sysconfig
import tokenize
import warnings

warnings.filterwarnings("ignore", category=SyntaxWarning)

from hypothesis import strategies as st

from . import REPO
from .oracle import S

# ----------------------------------------------------------------------------------------------------------------------
# G-real


@functools.lru_cache(maxsize=None)
def real_files() -> tuple[str, ...]:
    """Sorted list of real python files: the repo's own sources and tests, then the interpreter's stdlib."""

    out = []

    for base in (os.path.join(REPO, 'src', 'fst'), os.path.join(REPO, 'tests')):
        for dp, dns, fns in os.walk(base):
            dns.sort()

            if 'data' in dns:
                dns.remove('data')  # huge golden files

            for fn in sorted(fns):
                if fn.endswith('.py'):
                    out.append(os.path.join(dp, fn))

    stdlib = sysconfig.get_paths()['stdlib']

    for dp, dns, fns in os.walk(stdlib):
        dns.sort()

        for skip in ('site-packages', '__pycache__', 'lib2to3', 'idlelib', 'turtledemo'):
            if skip in dns:
                dns.remove(skip)

        for fn in sorted(fns):
            if fn.endswith('.py'):
                out.append(os.path.join(dp, fn))

    return tuple(out)


@functools.lru_cache(maxsize=64)
def load_file(path: str):
    """-> (src, ast) or None if CPython itself cannot decode / parse it."""

    try:
        with open(path, 'rb') as f:
            raw = f.read()

        if len(raw) > 400_000:
            return None

        src = raw.decode('utf-8')

        if '\r' in src or '\f' in src or '\x00' in src:
            return None  # pfst splits lines on '\n' only; CR / FF line semantics are out of the generated domain

        if src.startswith('\ufeff'):
            return None

        return src, ast.parse(src)

    except (SyntaxError, UnicodeDecodeError, ValueError, RecursionError, MemoryError):
        return None


def _stmt_first_line(s: ast.stmt) -> int:
    ln = s.lineno

    for d in getattr(s, 'decorator_list', ()):
        ln = min(ln, d.lineno)

    return ln


@functools.lru_cache(maxsize=64)
def file_windows(path: str, min_lines: int = 3, max_lines: int = 80) -> tuple[str, ...]:
    """Windows of a file: runs of consecutive top-level statements (with the comment / blank lines between and directly
    above them) of `min_lines`..`max_lines` lines, each parseable standalone by CPython."""

    loaded = load_file(path)

    if loaded is None:
        return ()

    src, tree = loaded
    lines = src.split('\n')
    body = tree.body
    out = []
    i = 0

    while i < len(body):
        start = _stmt_first_line(body[i]) - 1

        # include comment block directly above
        while start > 0 and lines[start - 1].lstrip().startswith('#') and (i == 0 or start - 1 >= body[i - 1].end_lineno):
            start -= 1

        j = i
        end = body[j].end_lineno

        while j + 1 < len(body) and body[j + 1].end_lineno - start <= max_lines and end - start < min_lines + 8:
            j += 1
            end = body[j].end_lineno

        if min_lines <= end - start <= max_lines:
            text = '\n'.join(lines[start:end])

            try:
                ast.parse(text)
            except (SyntaxError, ValueError):
                pass
            else:
                out.append(text)

        i = j + 1

    return tuple(out)


@st.composite
def real_window(draw, max_lines: int = 60):
    files = real_files()

    for _ in range(20):
        path = files[draw(st.integers(0, len(files) - 1))]
        wins = file_windows(path, 3, max_lines)

        if wins:
            return wins[draw(st.integers(0, len(wins) - 1))]

    return 'x = 1\n# c\ny = [x,\n     2]'


# ----------------------------------------------------------------------------------------------------------------------
# G-snip: inputs of the maintainers' golden data (inputs and put-codes only, never recorded outputs)


def _load_data_module(name: str):
    path = os.path.join(REPO, 'tests', 'data', name + '.py')
    spec = importlib.util.spec_from_file_location('_pfstverif_' + name, path)
    mod = importlib.util.module_from_spec(spec)
    spec.loader.exec_module(mod)

    return mod


def _unfmt(code: str) -> str:
    return code[1:-1] if code.startswith('\n') and code.endswith('\n') else code


@functools.lru_cache(maxsize=None)
def snippets() -> tuple[tuple[str, str], ...]:
    """(mode_name | '', source) pairs, deduplicated, sorted."""

    out = set()

    for name, var in (('data_get_one', 'DATA_GET_ONE'), ('data_get_slice', 'DATA_GET_SLICE'),
                      ('data_put_one', 'DATA_PUT_ONE'), ('data_put_slice', 'DATA_PUT_SLICE'),
                      ('data_coerce', 'DATA_COERCE'), ('data_parse_autogen', 'DATA_PARSE_AUTOGEN')):
        try:
            data = getattr(_load_data_module(name), var)
        except Exception:
            continue

        for cases in data.values():
            for case in cases:
                for item in case[5:7]:
                    if isinstance(item, tuple) and len(item) == 2 and isinstance(item[1], str):
                        mode, code = item
                        mode = mode.__name__ if isinstance(mode, type) else (mode or '')

                        if isinstance(mode, str):
                            out.add((mode, _unfmt(code)))

                    elif isinstance(item, str) and item is case[5]:
                        out.add(('', _unfmt(item)))

    return tuple(sorted(out))


@functools.lru_cache(maxsize=None)
def snippet_modules() -> tuple[str, ...]:
    """Snippets that CPython parses as a module (any original mode), 1..60 lines."""

    out = []

    for mode, code in snippets():
        if not code.strip() or code.count('\n') > 60 or '\r' in code or '\f' in code:
            continue

        try:
            ast.parse(code)
        except (SyntaxError, ValueError, RecursionError, MemoryError):
            continue

        out.append(code)

    return tuple(sorted(set(out)))


# ----------------------------------------------------------------------------------------------------------------------
# Donors (G-D): standalone-valid code by category. Each expression donor parses with ast.parse(mode='eval'), each
# statement donor with mode='exec'. Multi-line and commented layouts are included on purpose.

EXPR_DONORS = (
    'x', 'None', '1', '-1', '1.5j', "'s'", "b'b'", '...', 'True',
    'a.b', 'a.b.c', 'a[b]', 'a[b:c]', 'a[b, c:d]', 'f()', 'f(a, *b, k=v, **kw)', 'f(a)(b)',
    'a + b', 'a - b', 'a * b', 'a ** b', 'a @ b', 'a // b', 'a << b', 'a | b', 'a & b', 'a ^ b', 'a % b',
    '-a', 'not a', '~a', '+a',
    'a and b', 'a or b', 'a and b or c',
    'a < b', 'a < b < c', 'a is not b', 'a not in b', 'a == b',
    'a if b else c', 'lambda: x', 'lambda a, b=1, *c, d, **e: a', 'x := 1', '(x := 1)',
    'a, b', '(a, b)', '()', '(a,)', 'a,', '[a, b]', '[]', '{a, b}', '{a: b, **c}', '{}',
    '[i for i in j]', '{i for i in j if k}', '{i: j for i, j in k}', '(i for i in j)', '[i async for i in j if a if b]',
    "f'a{b}c'", "f'{a!r:>{w}}'", "'a' 'b'", "'''multi\nline'''", "f'''x{\na\n}y'''",
    'await a', 'yield', 'yield a', 'yield from a', '*a',
    '(a)', '((a))', '( a )', '(a + b)', '(a,\n b)', '[a,\n b,\n]', 'f(a,\n  b)', '(\na\n)', '(a # c\n)',
    '(a +\n b)', 'a \\\n + b', '(a\n  if b\n  else c)', '{a: b,\n c: d}', 'f(\n    a,  # first\n    b=c,  # second\n)',
    'a.b(c)[d].e', '-a ** -b', 'not a in b', 'a if b else c if d else e', 'lambda: (yield)', '(yield)',
    'ñ', 'ä + ö', "'ünï' + ẞ", 'f(日本, 語=1)', '0x1F', '1_000', "rb'\\x00'", "u'u'",
    'a[b][c]', 'a[:]', 'a[::2]', 'a[b, ]', 'a[*b]', 'x[a:b, c]',
)

STMT_DONORS = (
    'pass', 'x = 1', 'x: int = 1', 'x: int', 'x += 1', 'a = b = c', 'a, b = c', 'del a, b', 'return', 'return x',
    'raise', 'raise E from c', 'assert a, b', 'global g', 'nonlocal n', 'import a.b as c, d', 'from . import a',
    'from a import (b, c as d)', 'from a import *', 'break', 'continue', 'f()', 'a; b', 'x = 1  # comment',
    '# lead\nx = 1', "'''doc'''", 'yield x', 'await x', 'type T = int', 'type T[U] = U',
    'if a: pass', 'if a:\n    pass\nelse:\n    pass', 'if a:\n    pass\nelif b:\n    pass\nelse:\n    pass',
    'for i in j: pass', 'for i in j:\n    pass\nelse:\n    pass', 'async for i in j: pass',
    'while a:\n    break\nelse:\n    pass', 'with a as b, c: pass', 'with (a as b,\n      c): pass', 'async with a: pass',
    'try: pass\nexcept E as e: pass\nelse: pass\nfinally: pass', 'try:\n    pass\nexcept* E:\n    pass',
    'try: pass\nfinally: pass', 'def f(): pass', 'def f(a, /, b=1, *c, d, **e) -> r:\n    """doc"""\n    return a',
    '@d\ndef f(): pass', 'async def f(): await x', 'class C: pass', '@d\nclass C(B, m=M):\n    x = 1\n\n    def f(self): pass',
    'def f[T, *U, **V](): pass', 'class C[T: int]: pass',
    'match a:\n    case 1: pass\n    case [x, *y] if z: pass\n    case {"k": v, **r}: pass\n    case C(a, b=c) | D() as e: pass\n    case _: pass',
    'x = [\n    1,  # one\n    2,\n]', 'x = (a +  # c\n     b)', 'x = a \\\n    + b', 'if a:\n    # c1\n    b  # c2\n    # c3',
    'x = 1 ; y = 2', 'if a: b ; c', "x = '''a\nb'''", 'def f():\n    # only comment\n    pass',
    'lambda: 1', 'ñ = ö', 'x = f(a,\n      b)\n# trailing',
)

OTHER_DONORS = {
    'arg': ('a', 'a: int', 'a: list[int]', 'ñ'),
    'arguments': ('', 'a', 'a, b=1', 'a, /, b, *, c', '*a, **b', 'a: int = 1, *args: str, k: int = 2, **kw', 'a,\n b'),
    'keyword': ('k=v', '**kw', 'k = (v)', 'k=a + b'),
    'alias': ('a', 'a as b', 'a.b', 'a.b as c', '*'),
    'withitem': ('a', 'a as b', '(a) as (b)', 'a as (b, c)', 'f() as x.y'),
    'ExceptHandler': ('except: pass', 'except E: pass', 'except (A, B) as e:\n    pass', 'except E as e:  # c\n    x\n    y'),
    'match_case': ('case 1: pass', 'case [a, b]: pass', 'case {1: x}:\n    pass', 'case C(x=1) if g:\n    a\n    b', 'case _: pass',
                   'case a | b: pass', 'case (a): pass'),
    'pattern': ('1', '-1', "'s'", 'None', 'a', '_', 'a.b', '[a, b]', '(a, b)', '[a, *b]', '{1: a, **r}', 'C()', 'C(a, b=c)',
                'a | b', '1 | 2 | 3', 'a as b', '[a] as b', '*a', '(a)', '1+2j'),
    'comprehension': ('for a in b', 'for a, b in c if d', 'async for a in b', 'for a in b if c if d', 'for (a) in (b)'),
    'type_param': ('T', 'T: int', '*T', '**T', 'T: (int, str)'),
    'operator': ('+', '-', '*', '/', '//', '%', '**', '@', '<<', '>>', '|', '&', '^'),
    'cmpop': ('<', '<=', '==', '!=', '>', '>=', 'is', 'is not', 'in', 'not in'),
    'unaryop': ('-', '+', '~', 'not'),
    'boolop': ('and', 'or'),
}


def _validate_donors():
    for s in EXPR_DONORS:
        ast.parse(f'[\n{s}\n]') if s.startswith('*') else ast.parse(f'(\n{s}\n)', mode='eval')

    for s in STMT_DONORS:
        ast.parse(s)


# ----------------------------------------------------------------------------------------------------------------------
# L - layout mutator. Token-level, structure-preserving by the judgement of CPython.


def _tokens(src: str):
    return list(tokenize.generate_tokens(io.StringIO(src).readline))


def _expr_spans(tree: ast.AST):
    """(sl, sc_bytes, el, ec_bytes) of expression nodes that may be wrapped in redundant parentheses."""

    out = []

    for n in ast.walk(tree):
        for field, val in ast.iter_fields(n):
            kids = val if isinstance(val, list) else [val]

            for k in kids:
                if not isinstance(k, ast.expr):
                    continue

                if isinstance(k, (ast.Starred, ast.Slice, ast.JoinedStr, ast.FormattedValue)):
                    continue

                if isinstance(n, (ast.JoinedStr, ast.FormattedValue)):
                    continue

                if isinstance(n, ast.keyword) or isinstance(k, ast.Tuple) and isinstance(n, (ast.Subscript, ast.Return, ast.Assign, ast.For, ast.Yield, ast.AugAssign, ast.AnnAssign, ast.Expr, ast.comprehension)):
                    if isinstance(k, ast.Tuple):
                        continue

                if isinstance(n, (ast.MatchValue, ast.MatchMapping, ast.MatchClass)):
                    continue  # pattern sub-expressions cannot be parenthesised freely

                if isinstance(n, (ast.FunctionDef, ast.AsyncFunctionDef, ast.ClassDef)) and field == 'decorator_list':
                    pass

                if isinstance(n, ast.Call) and field == 'args' and isinstance(k, ast.GeneratorExp) and len(n.args) == 1 and not n.keywords:
                    continue  # shared parens

                if isinstance(n, (ast.Global, ast.Nonlocal)):
                    continue

                out.append((k.lineno, k.col_offset, k.end_lineno, k.end_col_offset))

    return sorted(set(out))


def _splice(lines: list[str], ln: int, col_b: int, text: str) -> None:
    """Insert text at 1-based line ln, byte col."""

    b = lines[ln - 1].encode()
    lines[ln - 1] = (b[:col_b] + text.encode() + b[col_b:]).decode()


def mutate_layout(src: str, draws: list[int]) -> str:
    """Apply a sequence of layout mutations selected by the integers in `draws` (pairs: kind, position). Each mutation is
    kept only if CPython says the structure is unchanged. Returns the mutated source (possibly == src)."""

    try:
        base = S(ast.parse(src))
    except (SyntaxError, ValueError):
        return src

    cur = src
    it = iter(draws)

    for kind in it:
        pos = next(it, 0)
        cand = _mutate_once(cur, kind % 9, pos)

        if cand is None or cand == cur:
            continue

        try:
            if S(ast.parse(cand)) == base:
                cur = cand
        except (SyntaxError, ValueError, RecursionError):
            pass

    return cur


def _mutate_once(src: str, kind: int, pos: int) -> str | None:
    lines = src.split('\n')

    try:
        tree = ast.parse(src)
    except (SyntaxError, ValueError):
        return None

    if kind in (0, 1):  # wrap an expression in redundant parentheses (kind 1: with inner spaces / newline)
        spans = _expr_spans(tree)

        if not spans:
            return None

        sl, sc, el, ec = spans[pos % len(spans)]
        opn, cls = ('(', ')') if kind == 0 else (('( ', ' )') if pos % 3 else ('(\n' + ' ' * 40, '\n' + ' ' * 40 + ')'))
        _splice(lines, el, ec, cls)
        _splice(lines, sl, sc, opn)

        return '\n'.join(lines)

    try:
        toks = _tokens(src)
    except (tokenize.TokenError, IndentationError, SyntaxError):
        return None

    if kind in (2, 3, 4):  # inside brackets: break line after a token (2), with comment (3); outside: backslash continuation (4)
        depth = 0
        cands = []

        for i, t in enumerate(toks):
            if t.type == tokenize.OP and t.string in '([{':
                depth += 1
            elif t.type == tokenize.OP and t.string in ')]}':
                depth -= 1

            if t.type in (tokenize.NL, tokenize.NEWLINE, tokenize.COMMENT, tokenize.INDENT, tokenize.DEDENT, tokenize.ENDMARKER):
                continue

            if t.type in (tokenize.FSTRING_START, tokenize.FSTRING_MIDDLE):
                continue

            nxt = toks[i + 1] if i + 1 < len(toks) else None

            if nxt is None or nxt.type in (tokenize.NL, tokenize.NEWLINE, tokenize.COMMENT, tokenize.ENDMARKER, tokenize.FSTRING_MIDDLE, tokenize.FSTRING_END):
                continue

            if nxt.start[0] != t.end[0]:
                continue

            if (kind in (2, 3)) == (depth > 0):
                cands.append(t)

        # do not break inside f-strings: exclude tokens between FSTRING_START and FSTRING_END
        fdepth = 0
        infs = set()

        for t in toks:
            if t.type == tokenize.FSTRING_START:
                fdepth += 1
            elif t.type == tokenize.FSTRING_END:
                fdepth -= 1
            elif fdepth:
                infs.add((t.start, t.end))

        cands = [t for t in cands if (t.start, t.end) not in infs]

        if not cands:
            return None

        t = cands[pos % len(cands)]
        ln, col = t.end
        line = lines[ln - 1]
        indent = ' ' * (len(line) - len(line.lstrip()) + 4 + pos % 3)
        ins = {2: '\n' + indent, 3: '  # c' + str(pos % 10) + '\n' + indent, 4: ' \\\n' + indent}[kind]
        lines[ln - 1] = line[:col] + ins + line[col:].lstrip(' ')

        return '\n'.join(lines)

    if kind == 5:  # comment or blank line between statements
        stmts = [n for n in ast.walk(tree) if isinstance(n, ast.stmt)]

        if not stmts:
            return None

        s = stmts[pos % len(stmts)]
        ln = _stmt_first_line(s)
        line = lines[ln - 1]
        ind = line[:len(line) - len(line.lstrip())]

        if line[:s.col_offset].strip():  # not first on its line (after `;` or `if x:`)
            return None

        lines.insert(ln - 1, (ind + '# comment ' + str(pos % 10)) if pos % 2 else '')

        return '\n'.join(lines)

    if kind == 6:  # trailing line comment on a statement's last line
        stmts = [n for n in ast.walk(tree) if isinstance(n, ast.stmt)]

        if not stmts:
            return None

        s = stmts[pos % len(stmts)]
        ln = s.end_lineno
        line = lines[ln - 1]

        if '#' in line or line.rstrip().endswith('\\') or len(line.encode()) != s.end_col_offset and not line.encode()[s.end_col_offset:].strip() == b'':
            return None

        lines[ln - 1] = line.rstrip() + '  # tc' + str(pos % 10)

        return '\n'.join(lines)

    if kind == 7:  # join two simple statements with ';'
        cands = []

        for n in ast.walk(tree):
            for f in ('body', 'orelse', 'finalbody'):
                body = getattr(n, f, None)

                if isinstance(body, list):
                    for a, b in zip(body, body[1:]):
                        if (isinstance(a, ast.stmt) and isinstance(b, ast.stmt) and a.end_lineno + 1 == b.lineno and
                                not hasattr(a, 'body') and not hasattr(b, 'body') and not isinstance(a, (ast.Match,)) and
                                a.lineno == a.end_lineno):
                            cands.append((a, b))

        if not cands:
            return None

        a, b = cands[pos % len(cands)]
        la = lines[a.end_lineno - 1]

        if la.encode()[a.end_col_offset:].strip():
            return None  # trailing comment

        lb = lines[b.lineno - 1]
        lines[a.end_lineno - 1] = la.rstrip() + (' ; ' if pos % 2 else '; ') + lb.lstrip()
        del lines[b.lineno - 1]

        return '\n'.join(lines)

    if kind == 8:  # trailing whitespace on a line / extra spaces around an operator token
        cands = [t for t in toks if t.type == tokenize.OP and t.string in (',', '=', '+', '-', '*', ':', '==', '<', '.')]

        # exclude f-string interiors
        if not cands:
            return None

        t = cands[pos % len(cands)]
        ln, col = t.end
        line = lines[ln - 1]

        if any(tt.type in (tokenize.FSTRING_START, tokenize.FSTRING_MIDDLE, tokenize.FSTRING_END) and tt.start[0] <= ln <= tt.end[0] for tt in toks):
            return None

        lines[ln - 1] = line[:col] + '  ' + line[col:]

        return '\n'.join(lines)

    return None


layout_draws = st.lists(st.integers(0, 10_000), min_size=0, max_size=12)


# ----------------------------------------------------------------------------------------------------------------------
# Small synthetic programs (G-syn-lite): grammar corners that real code rarely has. Hand-written templates, each valid.

SYN_PROGRAMS = (
    'match x:\n    case [a, b, *rest] if a: pass\n    case {"k": v, **kw}: y = 1\n    case C(p, q=r) | D(): pass\n    case (1 | 2) as n: pass\n    case _: pass',
    'def f[T: int, *Ts, **P](a: T, /, b=1, *args: *Ts, c, d=2, **kw: P.kwargs) -> T:\n    """doc"""\n    global g\n    nonlocal_ = 1\n    return a',
    'class C[T](B, metaclass=M):\n    """doc"""\n    x: int = 1\n\n    @dec\n    def m(self): return self.x',
    'try:\n    a\nexcept* (E, F) as e:\n    b\nelse:\n    c\nfinally:\n    d',
    'try:\n    a\nexcept E:\n    b\nexcept:\n    c',
    'with a as b, c as (d, e), f: pass\nwith (a as b,\n      c): pass',
    'x = [y := f(z), y ** 2]\nprint(f"{x!r:>{w}} {y=}")\nz = [i for i in range(n) if (j := i)]',
    'async def g():\n    async with a as b:\n        async for i in b:\n            await i\n    return [x async for x in y]',
    'if a:\n    b\nelif c:\n    d\nelse:\n    e\nwhile f:\n    g\nelse:\n    h\nfor i in j:\n    k\nelse:\n    l',
    'a = b = c\na, *b = c\ndel a, b[0], c.d\na += 1\na: int\n(a): int = 1\nglobal q, r\nimport a.b as c, d\nfrom .m import (x as y, z)',
    'f(a, *b, c=d, **e)\nf(*a, b, c=d, *e, **g)\nclass K(a, *b, c=d, **e): pass\nx = {**a, b: c, **d}\ny = {*a, b}\nz = (*a, b)',
    't = a if b else c\nl = lambda x, /, y=1, *z, k, **kw: (x, y)\ns = a[b:c, d:e:f, ...]\nu = a[*b]\nv = -a ** -b\nw = not a in b',
    'type A = int\ntype B[T] = list[T]\nassert a, "m"\nraise E from None\nreturn_ = 1',
    "s = 'a' 'b' \\\n    'c'\nb = b'x'\nt = '''tri\nple'''\nf = f'''a{\n  x\n}b'''",
    'x = (  # open\n    a,  # first\n    b,\n    # own line\n    c,\n)  # close\ny = [\n    1, 2,\n    3,\n]',
    'x = 1; y = 2; z = 3\nif a: b; c\nwhile d: e',
    'def f():\n\tif a:\n\t\treturn 1\n\treturn 2',
    'class C:\n  def f(self):\n    # c\n    return (1 +\n            2)\n  x = 1',
    'ñ = ö + ü\ndef ƒ(α, β=1): return α * β\n日本 = "語" + ñ',
    '@a\n@b(c)\n@d.e\ndef f(): pass\n\n@g\nclass H: pass',
    'x = yield\ny = yield a\nz = yield from b\nawait c',
    'for a, b in c: pass\nfor (a, b) in c: pass\nfor a.b in c: pass\nfor a[0] in c: pass\n[x for x, in y]',
    'x = a < b <= c != d is not e not in f\ny = a and b or c and not d',
    'd = {\n    "a": 1,  # one\n    **b,\n    "c": [\n        1,\n    ],\n}',
    'def f(\n    a,  # first\n    b=1,\n    *args,\n    **kw,\n):\n    pass',
    'if True:\n    x = 1\n    # trailing comment in block\n\n# comment at module level\ny = 2',
)


# G-triv: programs dense in trivia (comments in every position, blank lines, multi-line strings as statements and as values, elif chains,
# semicolons, line continuations), for grids of edits whose point is what happens AROUND the edited element
TRIVIA_PROGRAMS = (
    'if a:\n    x = 1  # c1\nelif b:\n    """s1\n       s2"""\n    y = \'\'\'t1\n  t2\'\'\'  # c2\nelse:\n    z',
    'if a:\n    x\nelif b:\n    """only\n  doc"""\n',
    '# lead\n\nx = 1  # tx\n\n# between 1\n# between 2\ny = 2\n\n\n# before z\nz = 3  # tz\n# tail\n',
    'def f():\n    """doc\n    more\n    """\n\n    # c0\n    a = 1  # ta\n\n    # c1\n\n    b = 2\n    # end of f\n\n\n# after f\ng = 3',
    'class C:\n    # first\n    x = 1\n\n    def m(self):  # tm\n        pass  # tp\n\n    # between\n    def n(self):\n        \'\'\'d\n        e\'\'\'\n        return 1\n    # last',
    'r = [\n    a,  # ca\n    # own line\n    b,\n\n    c,  # cc\n]  # after\ns = f(\n    x,  # cx\n    k=1,  # ck\n    # own\n    **kw,\n)',
    'try:\n    a  # ta\n# c before except\nexcept E:  # te\n    b\n\n# c before else\nelse:\n    c\n# c before finally\nfinally:  # tf\n    d  # td',
    'x = 1; y = 2  # cxy\nz = 3 ; w = 4 ;  # trailing semi\nif a: b; c  # cbc\n',
    'x = a + \\\n    b  # cont\ny = (a +  # inner\n     b)\nz = \\\n    1\n',
    'match s:\n    # before case 1\n    case 1:  # t1\n        a\n\n    # before case 2\n    case [x, y]:\n        b  # tb\n    case _: pass  # tp',
    'for i in x:  # tfor\n    # body lead\n    a\n\n    b  # tb\n# before else\nelse:\n    c\n\nwhile a:\n    break  # tbrk\nelse:  # telse\n    d',
    'with a as b:  # tw\n\n    # lead\n    c\n\n\n    d  # td\n\n# after with\n',
    '@d1  # td1\n# between decorators\n@d2\ndef f(a,  # ta\n      b):  # tb\n    return a  # tr\n',
    'a = {\n    1: x,  # c1\n    # own\n    **u,\n    2: y,\n}\nb = (i  # ci\n     for i in j  # cj\n     if k)  # ck\n',
    'import a  # ca\nfrom b import (c,  # cc\n               d)  # cd\n\nglobal g  # cg\ndel p, q  # cdel\nassert a, m  # cas\n',
    '\tif a:\n\t\tx  # tabs\n\t\t# own\n\t\ty\n'.replace('\tif', 'if').replace('\n\t\t', '\n\t'),
    # compound statements at the end of blocks of position-less parents (match_case, handlers)
    'match s:\n    case 1:\n        a\n    case _:\n        if b:\n            c\n        for i in j:\n            d\n',
    'try:\n    a\nexcept E:\n    if b:\n        c\nelse:\n    with w:\n        d\nfinally:\n    while x:\n        e\n',
    'class K:\n    def m(self):\n        if a:\n            b\n        else:\n            for i in j:\n                c\n',
    # bodies on the header line
    'if a: b\nelif c: d\nelse: e', 'try: a\nexcept E: b\nelse: c\nfinally: d', 'for i in x: y\nelse: z', 'while a: b\nelse: c', 'with a: b  # c\nx = 1',
    'def f(): return 1\nclass C: x = 1\nasync def g(): await h', 'if a: b; c\nelif d: e; f  # cf\nelse: g; h',
)


# G-fstr: containers and operands inside f-string replacement fields (self-documenting '=' fields keep a copy of the expression text,
# a leading '{' must not merge with the field's opening brace)
FSTRING_PROGRAMS = (
    'x = f"{[a, b, c]=}"', 'x = f"{a or b or c = }"', 'x = f"{fn(a, b, k=c)=!r:>30}"', 'x = f"{a, {b}, c}"', 'x = f"{ {a, b} }"', 'x = f"{d[a, b]}{(a, b)!r}"',
    "x = f'{[i for i in (a, b, c)]=}'", 'x = f"{f(*[a, b], **{c: d})}"', 'x = f"""{[a,\n b]=}"""', 'x = f"{a:{[b, c][0]}}"', 'x = f"{a < b < c=}"',
    'x = f"pre {a + b} mid {c.d(e, f)!s} post"', 'x = f"{f\'{[a, b]}\'}"', 'x = f"{(lambda p, q: p)(a, b)}"',
)


# G-doc: multi-line strings in docstring positions (module / class / def first statement), in first-statement positions which are NOT docstring
# positions (if / for / with / try / handler / case bodies), as later statements and as values - at several indentation depths, so that the
# `docstr` option (True / False / 'strict') decides differently for each of them whenever a piece is dedented or indented
DOCSTR_PROGRAMS = (
    '"""module\n  doc"""\nclass C:\n    """class\n      doc"""\n    def m(self):\n        """def\n           doc"""\n        if x:\n            """if\n               first"""\n            y = 1\n        return y',
    'class C:\n    def m(self):\n        for a in b:\n            \'\'\'for\n            first\'\'\'\n        while c:\n            x\n            """while\n            second"""\n        v = """value\n            text"""',
    'def f():\n    with a as b:\n        """with\n        first"""\n    try:\n        """try\n        first"""\n    except E:\n        """handler\n        first"""\n    else:\n        """else\n        first"""\n    finally:\n        """finally\n        first"""',
    'def f():\n    match a:\n        case 1:\n            """case\n            first"""\n        case _:\n            x\n    async def g():\n        """nested def\n        doc"""\n        "one line"\n        """later\n        stmt"""',
    'if a:\n    class D:\n        x = 1\n        """not first\n        in class"""\n    def h():\n        "a" \\\n        "b"\n        if b:\n            "x\\\n            y"\n            f(\'\'\'arg\n            text\'\'\')',
)


@functools.lru_cache(maxsize=None)
def saturated_programs() -> tuple[str, ...]:
    """G-sat: small programs enumerating the optional parts of every compound construct (decorators x type parameters x bases /
    argument kinds x returns x async; handlers x else x finally x star; ...), so that every (node kind, populated field set) occurs.
    Each is checked with CPython."""

    import itertools

    out = []
    decos = ('', '@d\n', '@d1\n@d2(x, k=v)\n')
    tparams = ('', '[T]', '[T: int, *U, **V]', '[T = int]')
    argss = ('', 'a', 'a, /, b=1, *c, d, e=2, **f', '*, k', 'a: int = 1, *args: str, **kw: dict', '*a')
    rets = ('', ' -> r')

    for de, tp, ar, rt, asy in itertools.product(decos, tparams, argss, rets, ('', 'async ')):
        out.append(f'{de}{asy}def f{tp}({ar}){rt}:\n    x = 1\n    return x')

    bases = ('', '()', '(B)', '(B, C, m=M)', '(*bs, **kw)', '(B, *bs, m=M, **kw)')

    for de, tp, ba in itertools.product(decos, tparams, bases):
        out.append(f'{de}class C{tp}{ba}:\n    """doc"""\n    x: int = 1\n    def m(self): pass')

    for star, nh, el, fi in itertools.product(('', '*'), (0, 1, 2), (0, 1), (0, 1)):
        if not nh and not fi:
            continue

        if not nh and el:
            continue

        hs = ''.join(f'except{star} E{i} as e{i}:\n    h{i}\n' if i or star else 'except E0:\n    h0\n' for i in range(nh))
        out.append(f'try:\n    a\n{hs}' + ('else:\n    b\n' if el else '') + ('finally:\n    c\n' if fi else ''))

    for asy, el in itertools.product(('', 'async '), (0, 1)):
        out.append(f'{asy}for i, (j, *k) in x:\n    if i: break\n    continue\n' + ('else:\n    z\n' if el else ''))

    for el in (0, 1):
        out.append('while a < b:\n    a += 1\n' + ('else:\n    z\n' if el else ''))

    for asy, items in itertools.product(('', 'async '), ('a', 'a as b', 'a as b, c', '(a as b, c as (d, e))', '(a, b)', 'f() as x.y, g() as z[0]')):
        out.append(f'{asy}with {items}:\n    pass')

    out.append('if a:\n    b\nelif c:\n    d\nelif e:\n    f\nelse:\n    g')
    out.append('if a:\n    b\nelse:\n    if c:\n        d\n    e')
    out.append('match s:\n    case 1 | -2 | 3j: pass\n    case "a" | None | True: pass\n    case [a, b, *r] if g: pass\n    case (a, [b, {"k": v, **kw}]): pass\n'
               '    case C(): pass\n    case m.C(1, x, k=v, kk=[w]) as whole: pass\n    case {}: pass\n    case [*_]: pass\n    case a.b.c: pass\n    case _: pass')
    out.append('import a\nimport a.b as c, d\nfrom . import e\nfrom ..f import g as h, i\nfrom j import (k,\n    l as m)\nfrom n import *')
    out.append('def f():\n    global g, h\n    def k():\n        nonlocal v, w\n    del a, b[0], c.d\n    raise E from c\n    assert a, "msg"\n    return\n')
    out.append('x: int\ny: list[int] = []\n(z): int = 1\na.b: int\nc[0]: str = "s"\nx += 1\ny[0] **= 2\nz.w //= 3\ntype A = int\ntype B[T, *U] = dict[T, U]')
    out.append('a = b = c, d = e\n[f, *g], h = i\nx = yield\ny = yield z\nw = yield from v\nasync def f():\n    r = await s\n    return [i async for i in a if b]')
    out.append('r = f(a, *b, c, k=v, **kw, k2=v2)\nr = a[b]\nr = a[b:c:d]\nr = a[::2, 1:, :3, ...]\nr = a[*b, c]\nr = lambda: 0\nr = lambda a, /, b=1, *c, d, e=2, **f: (a, b)\n'
               'r = [i for i in a]\nr = {i: j for i, j in a if i if j for k in l}\nr = {i for i in a}\nr = (i async for i in a)\nr = {**a, b: c, **d}\nr = {a, *b}')
    out.append('r = f"{a}{b!r}{c:>{w}.{p}}{d=}{e!s:{f}}"\nr = "a" "b" f"{c}"\nr = (x := 1) + (y := x)\nr = a if b else c if d else e\nr = a < b <= c != d is not e not in f\n'
               'r = a and b or not c and (d or e)\nr = -a ** +b @ ~c // d % e << f >> g & h ^ i | j\nr = a.b.c(d).e[f].g\nr = *a, *b\nr = ()\nr = (a,)\nr = [[], [[]]]')

    # call / class-base argument interleavings: every valid order of up to 6 arguments over {positional, *starred, keyword, **mapping}
    calls = []

    for n in (3, 4, 5, 6):
        for combo in itertools.product('p*k2', repeat=n):
            if n > 4 and ('*' not in combo or 'k' not in combo):
                continue  # long ones only when starred and keyword arguments interleave

            txt = ', '.join({'p': f'p{i}', '*': f'*s{i}', 'k': f'k{i}=v{i}', '2': f'**d{i}'}[c] for i, c in enumerate(combo))

            try:
                ast.parse(f'f({txt})')
            except SyntaxError:
                continue

            calls.append(txt)

    for i in range(0, len(calls), 12):
        chunk = calls[i:i + 12]
        out.append('\n'.join(f'r{j} = f({c})' for j, c in enumerate(chunk)) + f'\nclass C({chunk[0]}): pass')

    good = []

    for src in out:
        try:
            ast.parse(src)
            good.append(src)
        except SyntaxError:
            pass

    return tuple(good)


@st.composite
def program(draw, max_lines: int = 60, layout: bool = True):
    """A parseable module source: G-real window (60 %), G-snip module (20 %), G-syn template (20 %), optionally
    L-mutated."""

    k = draw(st.integers(0, 9))

    if k < 6:
        src = draw(real_window(max_lines))
    elif k < 8:
        mods = snippet_modules()
        src = mods[draw(st.integers(0, len(mods) - 1))]
    elif k == 8:
        src = SYN_PROGRAMS[draw(st.integers(0, len(SYN_PROGRAMS) - 1))]
    else:
        sat = saturated_programs()
        src = sat[draw(st.integers(0, len(sat) - 1))]

    if layout and draw(st.integers(0, 2)):
        src = mutate_layout(src, draw(layout_draws))

    mb = draw(st.integers(0, 17))

    if mb < 3:  # one program in six: identifiers renamed consistently to non-ASCII names (byte columns != character columns)
        src = multibyte_variant(src, mb) or src

    return src


_SOFT_KW = {'match', 'case', 'type', '_'}


def multibyte_variant(src: str, sel: int) -> str | None:
    """Append a non-ASCII (NFKC-stable) suffix to every identifier, consistently; None if CPython rejects the result."""

    try:
        toks = list(tokenize.generate_tokens(io.StringIO(src).readline))
    except (tokenize.TokenError, IndentationError, SyntaxError):
        return None

    suffix = ('é', '日本', 'ñö')[sel % 3]
    lines = src.split('\n')
    edits = []

    for t in toks:
        if (t.type == tokenize.NAME and not keyword.iskeyword(t.string) and t.string not in _SOFT_KW
            and not (t.string.startswith('__') and t.string.endswith('__'))
        ):
            edits.append((t.end[0] - 1, t.end[1], suffix))

    for ln, col, sfx in sorted(edits, reverse=True):
        lines[ln] = lines[ln][:col] + sfx + lines[ln][col:]

    new = '\n'.join(lines)

    try:
        if S(ast.parse(new)).count('(') != S(ast.parse(src)).count('('):  # same shape (a renamed soft keyword could change the parse)
            return None
    except (SyntaxError, ValueError, RecursionError):
        return None

    return new


def _segment(blines: list[bytes], n: ast.AST) -> str:
    if n.lineno == n.end_lineno:
        return blines[n.lineno - 1][n.col_offset:n.end_col_offset].decode()

    parts = [blines[n.lineno - 1][n.col_offset:]] + blines[n.lineno:n.end_lineno - 1] + [blines[n.end_lineno - 1][:n.end_col_offset]]

    return b'\n'.join(parts).decode()


@functools.lru_cache(maxsize=None)
def harvested_donors():
    """Real-code expression / statement donors cut out by CPython extents from a fixed set of files. Multi-line
    statement donors are taken only at column 0. Every donor is re-parsed standalone by CPython and must give the same
    structure (G-D)."""

    exprs, stmts = set(), set()
    files = real_files()
    picks = [f for f in files if os.path.basename(f) in ('textwrap.py', 'bisect.py', 'heapq.py', 'fst_raw.py', 'colorsys.py')][:5]

    for path in picks:
        loaded = load_file(path)

        if not loaded:
            continue

        src, tree = loaded
        blines = [l.encode() for l in src.split('\n')]

        for n in ast.walk(tree):
            if isinstance(n, ast.expr) and not isinstance(n, (ast.Starred, ast.Slice, ast.FormattedValue, ast.Name, ast.Constant)):
                if n.end_lineno - n.lineno > 6 or len(exprs) > 900:
                    continue

                seg = _segment(blines, n)

                if len(seg) < 200 and seg not in exprs:
                    try:
                        if S0_eq_expr(seg, n):
                            exprs.add(seg)
                    except Exception:
                        pass

            elif isinstance(n, ast.stmt) and n.col_offset == 0 and n.end_lineno - n.lineno < 12:
                seg = _segment(blines, n)

                try:
                    ast.parse(seg)
                    stmts.add(seg)
                except (SyntaxError, ValueError):
                    pass

    return tuple(sorted(exprs)), tuple(sorted(stmts))


def S0_eq_expr(seg: str, node: ast.AST) -> bool:
    from .oracle import S0

    if '\n' in seg:
        got = ast.parse('(\n' + seg + '\n)', mode='eval').body
    else:
        got = ast.parse(seg, mode='eval').body

    return S0(got) == S0(node)


@st.composite
def expr_donor(draw):
    k = draw(st.integers(0, 9))

    if k < 7:
        return EXPR_DONORS[draw(st.integers(0, len(EXPR_DONORS) - 1))]

    exprs, _ = harvested_donors()

    return exprs[draw(st.integers(0, len(exprs) - 1))] if exprs else 'x'


@st.composite
def stmt_donor(draw):
    k = draw(st.integers(0, 9))

    if k < 7:
        return STMT_DONORS[draw(st.integers(0, len(STMT_DONORS) - 1))]

    _, stmts = harvested_donors()

    return stmts[draw(st.integers(0, len(stmts) - 1))] if stmts else 'pass'
