#!/bin/bash
# Robustness of detection: every kept seeded change x its check x several VERIF_SEED values, on scratch copies of /repo/src
# (PFSTVERIF_SRC), so /repo itself is never touched. Usage: tools/seedmatrix.sh "1 2 3" [dir-with-seeds]
seeds=${1:-"1 2 3"}
dir=${2:-/verif/seeded}
cd /verif
for d in $dir/*/; do
  name=$(basename $d); id=${name:0:3}
  [ -f $d/patch.diff ] || continue
  rm -rf /tmp/mutsrc_$name; mkdir -p /tmp/mutsrc_$name; cp -r /repo/src /tmp/mutsrc_$name/src
  (cd /tmp/mutsrc_$name && patch -s -p1 < $d/patch.diff) || { echo "$name PATCH-FAILED"; continue; }
  line="$name:"
  for s in $seeds; do
    out=$(PFSTVERIF_SRC=/tmp/mutsrc_$name/src ./check $id --tier quick --seed $s 2>&1 | tail -1)
    rc=$(echo "$out" | sed -n 's/.*rc=\([0-9]\).*/\1/p'); v=$(echo "$out" | sed -n 's/.*violations=\([0-9]*\).*/\1/p')
    line="$line seed$s rc=$rc viol=$v;"
  done
  echo "$line"
  rm -rf /tmp/mutsrc_$name
done
