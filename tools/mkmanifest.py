#!/venv/bin/python
"""Regenerate MANIFEST.json from the check modules (keeps it valid and current)."""

import importlib
import json
import os
import sys

VERIF = os.path.dirname(os.path.dirname(os.path.abspath(__file__)))
sys.path.insert(0, VERIF)

props = [json.loads(l) for l in open(os.path.join(VERIF, 'properties.jsonl'))]
NA_REASONS = {}
checks = []
served = []
na = []

for p in props:
    pid = p['id']
    path = os.path.join(VERIF, 'pfstverif', 'checks', pid.lower() + '.py')

    if not os.path.exists(path):
        na.append({'property_id': pid, 'reason': NA_REASONS.get(pid, 'check not built yet (work in progress; will be claimed once registered)')})

        continue

    mod = importlib.import_module(f'pfstverif.checks.{pid.lower()}')
    served.append(pid)
    checks.append({
        'property_id': pid,
        'quick_cmd': f'./check {pid} --tier quick',
        'thorough_cmd': f'./check {pid} --tier thorough',
        'evidence_file': f'evidence/{pid}.json',
        'replay_cmd_template': f'./check {pid} --replay {{path}}',
        'engine': 'pfstverif',
        'level_claimed': {'category': mod.LEVEL, 'text': getattr(mod, 'LEVEL_TEXT', mod.RULE)[:1500], 'design_ref': f'DESIGN.md §3 {pid}'},
        'level_note': getattr(mod, 'LEVEL_NOTE', '; '.join(mod.ASSUMPTIONS))[:1500],
        'technique': mod.TECHNIQUE,
    })

m = {
    'version': 1,
    'setup_cmd': "/venv/bin/python -c 'import hypothesis' 2>/dev/null || /venv/bin/pip install --no-index --find-links /opt/veriftools/wheels hypothesis",
    'hooks': {
        'guard': 'PFST_VERIF',
        'enable': 'no hooks: checks import /repo/src directly (pure Python, nothing to build); the guard name is reserved and unused',
        'baseline_off_cmd': 'cd /repo && /venv/bin/python -m pytest -ra -q -p no:cacheprovider --timeout=900 --continue-on-collection-errors',
        'source_commits': [],
        'add_only': True,
    },
    'engines': [{'name': 'pfstverif', 'path': 'pfstverif/', 'serves_properties': served,
                 'kind_free_text': 'Hypothesis-driven generated-input search and bounded enumeration with CPython-only oracles, sharded over 16 processes; ddmin shrinking to replay files; known-findings protocol'}],
    'checks': checks,
    'notes': 'See DESIGN.md. ./check <id> --tier quick|thorough [--seed N]; VERIF_SEED selects the seed; exit 0 held / 1 VIOLATION / 2 harness error.',
    'not_applicable': na,
}

with open(os.path.join(VERIF, 'MANIFEST.json'), 'w') as f:
    json.dump(m, f, indent=1)

print('claimed:', served, 'not yet:', [n['property_id'] for n in na])
