#!/venv/bin/python
"""Confirm a seeded change delivered in /tmp/seedwork/out/<ID>/ and run registered checks against it.

  tools/seedcheck.py C05 [--checks C05,C01] [--tier quick] [--skip-tests] [--name C05b]

1. fresh scratch worktree of /repo HEAD under /tmp; demo.py must exit 0 there; apply patch.diff; demo.py must exit 1; the repo test suite
   must show only the 3 baseline failures (unless --skip-tests);
2. the patch is applied to /repo itself (git apply), the listed checks are run from /verif, and /repo is restored (git checkout -- .);
3. patch.diff / demo.py / meta.json are stored under /verif/seeded/<name>/ together with result.json.
"""

import argparse
import json
import os
import shutil
import subprocess
import sys
import time

BASELINE_FAILS = {'test_misc_non_expr_compatible_coerce.txt', 'test_get_format_spec', 'test_get_one_special'}


def sh(cmd, **kw):
    return subprocess.run(cmd, shell=True, capture_output=True, text=True, **kw)


def main():
    ap = argparse.ArgumentParser()
    ap.add_argument('id')
    ap.add_argument('--checks', default=None)
    ap.add_argument('--tier', default='quick')
    ap.add_argument('--skip-tests', action='store_true')
    ap.add_argument('--name', default=None)
    ap.add_argument('--src', default=None, help='directory with patch.diff, demo.py, meta.json (default /tmp/seedwork/out/<id>)')
    ap.add_argument('--seed', default='1')
    ap.add_argument('--scratch', action='store_true', help='run the checks against a scratch copy (PFSTVERIF_SRC) instead of patching /repo')
    ap.add_argument('--orig-wt', default=None, help='worktree path the demo may mention (default /tmp/seedwork/<id>)')
    args = ap.parse_args()

    pid = args.id
    name = args.name or pid
    src = args.src or f'/tmp/seedwork/out/{pid}'
    checks = (args.checks or pid).split(',')
    out = {'property': pid, 'name': name, 'checks': {}}
    wt = f'/tmp/confirm_{name}'

    sh(f'git -C /repo worktree remove --force {wt}')
    shutil.rmtree(wt, ignore_errors=True)
    r = sh(f'git -C /repo worktree add --detach {wt} HEAD')
    assert r.returncode == 0, r.stderr

    try:
        env = dict(os.environ, PYTHONPATH=f'{wt}/src')
        demo = f'{src}/demo.py'
        demo_txt = open(demo).read().replace(args.orig_wt or f'/tmp/seedwork/{pid}', wt)
        open(f'{wt}/_demo.py', 'w').write(demo_txt)
        r0 = sh(f'/venv/bin/python {wt}/_demo.py', env=env, cwd=wt)
        out['demo_without_change_rc'] = r0.returncode
        ra = sh(f'git -C {wt} apply {src}/patch.diff')

        if ra.returncode:
            ra = sh(f'git -C {wt} apply --3way {src}/patch.diff')

        out['patch_applies'] = ra.returncode == 0
        out['patch_apply_err'] = ra.stderr[-300:]
        r1 = sh(f'/venv/bin/python {wt}/_demo.py', env=env, cwd=wt)
        out['demo_with_change_rc'] = r1.returncode
        out['demo_with_change_tail'] = (r1.stdout + r1.stderr)[-600:]

        if not args.skip_tests:
            rt = sh('/venv/bin/python -m pytest -q -p no:cacheprovider --timeout=900 --continue-on-collection-errors 2>&1 | tail -12', env=env, cwd=wt)
            tail = rt.stdout
            fails = [l for l in tail.splitlines() if l.startswith(('FAILED', 'ERROR'))]
            extra = [l for l in fails if not any(b in l for b in BASELINE_FAILS)]
            out['tests_summary'] = tail.strip().splitlines()[-1] if tail.strip() else ''
            out['tests_extra_failures'] = extra

        # a clean patch relative to the current HEAD
        patch = sh(f'git -C {wt} diff -- src').stdout
    finally:
        sh(f'git -C /repo worktree remove --force {wt}')
        shutil.rmtree(wt, ignore_errors=True)

    confirmed = (out['demo_without_change_rc'] == 0 and out['demo_with_change_rc'] == 1 and out['patch_applies'] and not out.get('tests_extra_failures'))
    out['confirmed'] = confirmed
    dest = f'/verif/seeded/{name}'
    os.makedirs(dest, exist_ok=True)
    open(f'{dest}/patch.diff', 'w').write(patch)
    shutil.copy(demo, f'{dest}/demo.py')

    if os.path.exists(f'{src}/meta.json'):
        shutil.copy(f'{src}/meta.json', f'{dest}/meta.json')

    if confirmed and args.scratch:
        # checks against a scratch copy of /repo/src with the patch applied (PFSTVERIF_SRC): /repo itself is not touched
        mut = f'/tmp/mutsrc_{name}'
        shutil.rmtree(mut, ignore_errors=True)
        os.makedirs(mut)
        shutil.copytree('/repo/src', f'{mut}/src')
        rp = sh(f'patch -s -p1 < {dest}/patch.diff', cwd=mut)
        assert rp.returncode == 0, rp.stdout + rp.stderr

        try:
            for c in checks:
                t0 = time.time()
                r = sh(f'./check {c} --tier {args.tier} --seed {args.seed}', cwd='/verif', env=dict(os.environ, PFSTVERIF_SRC=f'{mut}/src'))
                viol = [l for l in r.stdout.splitlines() if l.startswith('VIOLATION')]
                heads = [l[:260] for l in r.stdout.splitlines() if l.startswith('[' + c)]
                out['checks'][c] = {'rc': r.returncode, 'violations': len(viol), 'first': heads[:3], 'wall_s': round(time.time() - t0, 1), 'tier': args.tier, 'seed': args.seed}
        finally:
            shutil.rmtree(mut, ignore_errors=True)

    elif confirmed:
        st = sh('git -C /repo status --porcelain').stdout.strip()
        assert not st, f'/repo not clean: {st}'
        ra = sh(f'git -C /repo apply {dest}/patch.diff')
        assert ra.returncode == 0, ra.stderr

        try:
            for c in checks:
                t0 = time.time()
                r = sh(f'./check {c} --tier {args.tier} --seed {args.seed}', cwd='/verif')
                viol = [l for l in r.stdout.splitlines() if l.startswith('VIOLATION')]
                heads = [l[:260] for l in r.stdout.splitlines() if l.startswith('[' + c)]
                out['checks'][c] = {'rc': r.returncode, 'violations': len(viol), 'first': heads[:3], 'wall_s': round(time.time() - t0, 1), 'tier': args.tier, 'seed': args.seed}
        finally:
            sh('git -C /repo checkout -- .')
            assert not sh('git -C /repo status --porcelain').stdout.strip()

    json.dump(out, open(f'{dest}/result.json', 'w'), indent=1)
    print(json.dumps(out, indent=1))


if __name__ == '__main__':
    main()
